//! Independent cross-check of engine E1's state graph with stateright 0.31.
//!
//! The same transition relation - (full decoder snapshot, monitor state) x operation symbol ->
//! next (snapshot, monitor state), each transition one execution of the real decoder restored
//! from the snapshot through the `verif_restore` hook - is handed to stateright's breadth-first
//! checker (single thread, so that depth accounting is exact). Its number of unique states at
//! each depth bound must equal the number E1's own explorer reports. This guards against
//! vacuity and engine bugs (a dedup that merges too much or too little, a frontier that loses
//! states); it is not part of any verdict.
use smlmc::dec::{BufKind, Dec};
use smlmc::e1::{explore, full_alphabet, Cfg, Gen2, Node, StepInfo, Sym};
use smlmc::mon::Mon;
use smlmc::report::{Ctx, Tier};
use sml_rs::transport::Decoder;
use smlmc::dec::Snap as DecoderSnapshot;
use stateright::{Checker, Model, Property};

#[derive(Clone, Debug, Hash, PartialEq, Eq)]
struct St {
    snap: DecoderSnapshot,
    in_frame: bool,
    unacc: usize,
    scan: u8,
    frame: Vec<u8>,
    bad: bool,
}
struct E1Model {
    alphabet: Vec<Sym>,
    roots: Vec<Vec<Sym>>,
}
fn to_state(n: &Node, bad: bool) -> St {
    St { snap: n.dec.snap(), in_frame: n.mon.in_frame, unacc: n.mon.unacc, scan: n.mon.scan, frame: n.mon.frame.clone(), bad }
}
fn to_node(s: &St) -> Node {
    let d: Decoder<Vec<u8>> = Decoder::verif_restore(&s.snap.to_hook()).expect("restore");
    let dec: Box<dyn Dec> = Box::new(d);
    Node { dec, mon: Mon { in_frame: s.in_frame, unacc: s.unacc, scan: s.scan, frame: s.frame.clone(), cap: None }, kind: BufKind::Vec }
}
impl Model for E1Model {
    type State = St;
    type Action = u8;
    fn init_states(&self) -> Vec<St> {
        self.roots
            .iter()
            .map(|r| {
                let mut n = Node::new(BufKind::Vec);
                let mut g = Gen2::default();
                for &s in r {
                    let mut info = StepInfo::default();
                    n.apply(s, &mut info, &mut g);
                }
                to_state(&n, false)
            })
            .collect()
    }
    fn actions(&self, state: &St, actions: &mut Vec<u8>) {
        if !state.bad {
            actions.extend(0..self.alphabet.len() as u8);
        }
    }
    fn next_state(&self, last: &St, action: u8) -> Option<St> {
        let mut n = to_node(last);
        let mut info = StepInfo::default();
        let mut g = Gen2::default();
        n.apply(self.alphabet[action as usize], &mut info, &mut g);
        if !info.findings.is_empty() {
            // E1 records a violating transition and does not count its target as a state
            return None;
        }
        Some(to_state(&n, false))
    }
    fn properties(&self) -> Vec<Property<Self>> {
        vec![Property::always("no monitor finding", |_, s: &St| !s.bad)]
    }
}

fn main() {
    smlmc::dec::install_quiet_panic_hook_once();
    let maxd: usize = std::env::args().nth(1).and_then(|s| s.parse().ok()).unwrap_or(4);
    let roots = vec![vec![], vec![Sym::Esc, Sym::Som]];
    let ctx = Ctx::new("XCHECK", Tier::Quick);
    let mut rows = vec![];
    let mut ok = true;
    for d in 1..=maxd {
        let t0 = std::time::Instant::now();
        let model = E1Model { alphabet: full_alphabet(), roots: roots.clone() };
        let checker = model.checker().threads(1).target_max_depth(d + 1).spawn_bfs().join();
        let sr_unique = checker.unique_state_count();
        let sr_t = t0.elapsed().as_secs_f64();
        let cfg = Cfg {
            kind: BufKind::Vec,
            alphabet: full_alphabet(),
            depth: d,
            roots: roots.clone(),
            idle_only: false,
            collect_boundaries: false,
            report: vec!["C"],
            prop: "XCHECK".into(),
            seed: 0,
            rss_cap_states: u64::MAX,
        };
        let ex = explore(&cfg, &ctx);
        let same = sr_unique as u64 == ex.states && ex.tally.is_empty() && checker.discoveries().is_empty();
        ok &= same;
        println!("depth {}: stateright unique states {} ({:.1}s, {} generated) ; E1 states {} transitions {} ; {}", d, sr_unique, sr_t, checker.state_count(), ex.states, ex.transitions, if same { "EQUAL" } else { "DIFFERENT" });
        rows.push(format!("{{\"depth\":{},\"stateright_unique_states\":{},\"e1_states\":{},\"e1_transitions\":{},\"equal\":{}}}", d, sr_unique, ex.states, ex.transitions, same));
    }
    let out = format!("{{\"tool\":\"stateright 0.31.0 spawn_bfs, 1 thread\",\"rows\":[{}],\"all_equal\":{}}}\n", rows.join(","), ok);
    let path = std::env::var("XCHECK_OUT").unwrap_or_else(|_| "target/xcheck.json".into());
    let _ = std::fs::write(&path, out);
    std::process::exit(if ok { 0 } else { 2 });
}
