#!/usr/bin/env python3
"""Regenerates /verif/MANIFEST.json from the table below and validates it."""
import json, os, sys
HERE = os.path.dirname(os.path.dirname(os.path.abspath(__file__)))
TRUST = "reference oracles of DESIGN §5/§8 (bit-wise CRC, canon, monitor, independent SML reader, ideal vector) bound to the repository's golden vectors at start-up; harness catch_unwind/allocator plumbing; rustc; 64-bit host with features std+alloc+nb+embedded-hal-02 (C11 additionally on the default feature set)"
# id -> (engine, category, technique, text, design_ref, note)
C = {}
def add(i, engine, cat, tech, text, ref, note=TRUST):
    C[i] = dict(engine=engine, cat=cat, tech=tech, text=text, ref=ref, note=note)

add("C01", "E2", "model_checking", "bounded exhaustive enumeration of payloads x encoders x decoder front-ends x capacities on the real code against a spec-level encoder",
    "every payload over {00,01,1a,1b,55} up to length 9 (quick) / 11 (thorough), every payload length 10..1100 / ..2600 with five fillers, every byte value in short payloads, and filler x boundary-length x tail payloads around 2^8, 2^10, 2^13, 2^16 is framed by the reference encoder and by both real encoders and decoded by all front-ends (push decoder, decode, decode_streaming, SmlReader over slice / iterators / io::Read shapes / embedded-hal serial, Decoder::from_buf with a used buffer) with growable, exact-capacity and next-larger fixed buffers; exactly one result, the payload, at the frame's last byte", "§6 C01")
add("C07", "E2", "model_checking", "bounded exhaustive enumeration of payloads x both encoders x every fixed capacity around the frame length against a spec-level encoder",
    "same payload space (length 10 quick / 12 thorough); both encoders must equal the spec-level frame byte for byte, the iterator must stay ended (3 further polls for every payload, 66000 for a sample), encode::<ArrayBuf<N>> must fail exactly when N < frame length (every N in 0..=340 is instantiated: every N for short payloads, F-2..F+1 otherwise), and encode::<Vec> must answer OutOfMemory (not abort) when the heap refuses to grow the buffer (child process)", "§6 C07")
add("C16", "E2", "model_checking", "bounded exhaustive enumeration of payload x capacity x follow-up frame on the real decoder under the receiver monitor",
    "every payload up to length 8 (quick) / 10 (thorough) x every capacity 0..|p|+1 x three follow-up frames through every front-end with that static buffer, plus the 8 KiB default buffer at 8191/8192/8193 bytes; N>=|p| must deliver at the last byte, N<|p| must give OutOfMemory, never a payload, and the follow-up frame must be delivered; every payload also behind a transmission cut off by the next start sequence (10 prefixes incl. 0..7 withheld zeros) with N=|p| and |p|+1", "§6 C16")

add("C02", "E1", "model_checking", "explicit-state BFS over the product (real Decoder state x receiver monitor) with state-adaptive checksum symbols and exact-state dedup",
    "all operation strings over 6 byte classes + state-adaptive CRC bytes + macro symbols + finalize/reset up to depth 6 (quick, 1.4e7 states) / 7 (thorough, 2e8 states) from new() and new()+start sequence and six stale-state roots, Vec and tiny fixed buffers (explored deeper), a wide-alphabet run, multi-frame streams and frames with a foreign escape sequence 1b1b1b1b k a b c spliced in for all 256 k; on every Ok(m) the raw bytes since the start sequence must equal the spec-level frame of m", "§6 C02")
add("C05", "E1", "model_checking", "explicit-state BFS of the real Decoder with all operations incl. finalize/reset over 8 buffer kinds, plus stateless enumeration of short paths containing long-run symbols (254..65537 bytes)",
    "every interleaving of push_byte/finalize/reset up to depth 6/8 (Vec) and 5/7 (ArrayBuf<0,1,2,3,4,5,8>) with overflow checks on; every path of length <=4/5 containing one run of 254..65537 identical bytes (thorough: also 2^32+-k, and a transmission in progress of 2^32+5 bytes on a growable buffer); encoders and all front-ends on payloads beyond 2^16; allocation failure behind a Vec buffer in four child-process scenarios; oracle: no panic, no hang, errors as values and the object stays usable (exploration continues from every error state)", "§6 C05")
add("C08", "E1", "model_checking", "explicit-state BFS of the idle phase over all noise strings (merged by state) + exhaustive directed enumeration history x noise x frame and cut-off frames",
    "(a) every noise string over the 6 byte classes up to length 24/40 (and over 12 further byte values up to length 10/12) from 9-10 idle histories, merged by (decoder snapshot, scanner state, count): the discarded report must come exactly at the byte completing the first start sequence and the decoder must then behave as new()+start; (b) 11 idle histories x every admissible noise string up to length 5/7 x 31 payloads through all front-ends; (c) every payload up to length 5/7 cut at every neutral offset followed by a frame, also with every capacity 0..6", "§6 C08")
add("C14", "E1", "model_checking", "explicit-state BFS collecting every distinct boundary state, then exhaustive lock-step differential continuation of each against a new decoder",
    "every distinct full decoder snapshot reached right after Ok/InvalidMessage/InvalidEsc/OutOfMemory/reset/finalize within depth 6/7 (1.3e5 boundary states over 8 buffer kinds in quick) x every continuation of <=2/3 symbols over 23 symbols incl. whole frames and pad-lying frames, CRC bytes adapted to either side: outputs must be identical call by call; branches are closed only on full state equality; plus the concatenation corollary on multi-frame streams at every transmission boundary; plus every stream behind a transmission cut off by the next start sequence (all prefixes over {00,55} up to 6/7 bytes, also behind 1b, x 18 tails) against a new decoder", "§6 C14")
add("C17", "E1", "model_checking", "explicit-state BFS of the real Decoder under the byte-accounting monitor, plus long-run paths (and, thorough, the same in a build without overflow checks)",
    "every discarded-bytes report, finalize/reset result and frame boundary on every explored transition (same space as C05) must tile the input: count == bytes since the previous boundary minus the start sequence; runs of 65534..65537 bytes before a start sequence, before finalize and inside a frame", "§6 C17")

E4T = "grammar-directed exhaustive input enumeration through both real parsers against an independent SML reader"
add("C03", "E4", "model_checking", E4T + " and an all-valid-encodings generator",
    "full product of list-entry fields (names, status classes, times, units, scalers, every value type / width class / leading-byte pattern, signatures; thinned 1/7 in quick) and of message-level optional masks x list lengths {0,1,2,14..17,255,256} x 1-3 message files, each in every valid encoding with <=1 (quick) / <=2-3 (thorough) non-default choices (integer widths, non-minimal and 8-byte TLFs, time workaround, 1-byte checksum); plus each of the 13 byte-string fields with every length 0..300 and around 2^12, 2^16 (data present), plus the derived families (mutations, splices, TLF replacements) wherever the independent reader accepts; both parsers must return exactly the abstract content; reader(encode(F))==F is asserted on every input", "§6 C03")
add("C04", "E4", "model_checking", E4T,
    "every byte string up to 3 (quick) / 4 (thorough) bytes, every string over 16 structural bytes up to 5/7; for ~60 seed files (all constructs + real meter payloads): every truncation, every one-byte insertion/deletion/append, every single-byte substitution by every value, substitution + tail defect (and pairs from 16 structural bytes, thorough), every checksum field re-encoded 18 ways, every splice prefix(A)+suffix(B), every TLF position replaced by every type x 19 declared lengths; each as is and with the checksums repaired; parsers must accept exactly when the independent reader accepts and return equal content", "§6 C04")
add("C06", "E4", "model_checking", E4T + " under a counting global allocator",
    "all inputs of the C04 families, the C03 entry product and the C12 type-length-field families, plus every TLF position of every seed replaced by TLFs declaring 0..2^36 and all crafted 4-72 byte and very long TLFs, over-declared lists of minimal entries; observed: panics (overflow checks on), largest single request and peak live heap inside complete::parse (<= 4096+128*|x|, calibrated on n minimal entries / k minimal messages), allocator calls inside streaming::Parser (must be 0); huge requests are served lazily from reserved address space so they are reported instead of aborting", "§6 C06")
add("C09", "E4", "model_checking", E4T + ", comparing the two parsers with each other",
    "on every input of the generated, short-string, mutation, splice and TLF-replacement families: complete::parse vs the re-assembled streaming events - both Ok with equal files or both Err with the same kind; announced num_values = number of value events, exactly one end event, before the next message start", "§6 C09")
add("C12", "E4", "model_checking", "exhaustive enumeration of all type-length fields of 1-2 bytes at six grammar sites (3 bytes: three sites in quick, all six in thorough) in context, crafted 4-72 byte and very long fields, all primitive encodings and every byte-string field x length, against the SML TLF rule",
    "each TLF is placed at six grammar sites (transaction id, value list, entry value, message head, time field x2) of an otherwise valid, correctly checksummed message built under every plausible decoded length (the reference's and the wrapped / truncated / own-size-forgotten ones); integers of every width 1-9 x leading byte x fill and of absurd widths carrying their data at 12 sites, all 1- and 2-byte values, all 256 boolean bytes, octet strings of length 0..300 at the value site and of every length 0..300, 4093..4097, 65533..65537, 100000 (thorough: ..1100, 2^20, 2^24) at each of the 13 string fields with the data present; any Ok differing from the reference rule is the violation", "§6 C12")
add("C13", "E4", "model_checking", E4T + ", checking the iterator protocol",
    "on every input of the C09 families: at most |x|+1 items, and after the first Err or None four further next() calls return None (hard call limit so a repeating error is reported, not looped on)", "§6 C13")

add("C10", "E3", "model_checking", "exhaustive enumeration of file sequences x noise placements x sources x buffers x per-call target-type/read-next choices on the real SmlReader against the abstract files put in",
    "file sequences of <=2 (quick) / <=3 (thorough) over 5 generated SML files + 1 non-SML payload, all 8^(k+1) noise placements (noise ending in 0x1b, partial start/end sequences), 8 sources (slice, two iterator flavours, io::Cursor, one-byte / chunked / interrupting io::Read, embedded-hal serial) x 4 buffer kinds, uniform and alternating choices of DecodedBytes/File/Parser x read/next/read_nb/next_nb for every layout and the full 6^(k+2) choice tree for three layouts per sequence; oracle: the abstract files in order, noise only as counts, None exactly at the end, and equality with decode+parse composed by hand", "§6 C10")
add("C11", "E3", "fault_enumeration", "stateless deviation-bounded exploration of byte-source answers: every placement of <=k faults at the read() choice points of a controlled io::Read",
    "choice point = every io::Read::read call of the real reader; deviations WouldBlock / Interrupted (single and a burst of 300) / Other / BrokenPipe / TimedOut / Err(UnexpectedEof) / premature persistent EOF, and in single-deviation schedules every stable io::ErrorKind and every errno 1..=133; every schedule with <=3 (quick) / <=4 (thorough) deviations on 9 streams, io::Read and embedded-hal sources, placing a fault in every decoder phase, drivers next/read/next_nb/read_nb, run to completion; oracle: reference reader (would-block surfaces once with 0 and changes nothing, interrupted invisible, other error carries the exact pending count and continues like a fresh reader on the rest, EOF -> None iff nothing pending, persistently; the kind / value of every returned read error equals what the source raised); faults after 2^8 / 2^16 pending bytes; and the would-block / interrupted half again on sml-rs built with its default features (/verif/stdonly)", "§6 C11")
add("C15", "E3", "model_checking", "exhaustive enumeration of symbol streams through all seven front-ends in lock step",
    "every symbol string (6 byte classes, adaptive checksum bytes, ESC SOM TAIL0-3 TAILX) of depth <=5 (quick) / <=6 (thorough) from three roots plus framed payload families with noise and multi-frame streams (up to 300/1000 frames), through Decoder+finalize, decode, decode_streaming and SmlReader over slice / iterator (by value, by reference, loose size_hint) / io::Cursor / one-byte and chunked io::Read / embedded-hal serial with Vec, ArrayBuf<64>, ArrayBuf<2> and the default buffer; all must equal the push decoder's list, leftovers as DiscardedBytes(n) vs IoErr(Eof,n); Vec and sufficient ArrayBuf must agree; leftovers of 2^8..2^17 bytes at the end of input", "§6 C15")
add("C18", "E5", "model_checking", "exhaustive enumeration of operation sequences on the real ArrayBuf<N> / Vec against an ideal bounded vector",
    "every sequence of push / extend_from_slice(0..N+1) / truncate(0..N+1) / clear up to depth 5-7 (quick) / 7-9 (thorough) for N in {0,1,2,3,4,6} and for Vec<u8>, coarse operations for N in {40,64,300} and slices of 511..65536 bytes for N in {1024,4097,8192,70000}, fresh non-periodic byte values so stale or misplaced storage is visible; after every step result and contents equal the ideal vector; at the end of every sequence from_iter through 8 iterator shapes (exact, loose and unbounded size hints, filter, chain), == both ways, Debug text (5 format specifications) equal between buffers of equal contents reached by different histories and of different capacities, and inequality with neighbouring contents", "§6 C18")

PENDING = {
}
ALL = ["C%02d" % i for i in range(1, 19)]
checks = []
for i in ALL:
    if i not in C: continue
    c = C[i]
    checks.append({
        "property_id": i,
        "quick_cmd": "./check %s quick" % i,
        "thorough_cmd": "./check %s thorough" % i,
        "evidence_file": "/verif/evidence/%s.json" % i,
        "replay_cmd_template": "./check --replay {path}",
        "engine": c["engine"],
        "level_claimed": {"category": c["cat"], "text": c["text"], "design_ref": c["ref"]},
        "level_note": c["note"],
        "technique": c["tech"],
    })
na = [{"property_id": i, "reason": PENDING.get(i, "check not built yet in this revision of /verif (work in progress; see DESIGN.md §12 for the order of work) - not claimed")} for i in ALL if i not in C]
m = {
    "version": 1,
    "setup_cmd": "./check --build",
    "hooks": {
        "guard": "cargo feature `verif-hooks` of sml-rs (off by default)",
        "enable": "the harness crate /verif/harness depends on /repo by path with features [\"verif-hooks\", \"nb\", \"embedded-hal-02\"] (harness feature `hooks`, default on; ./check falls back to a build without verif-hooks - stateless E1 - if the hook module does not compile against the tree); every ./check run rebuilds it from /repo's working tree",
        "baseline_off_cmd": "cd /repo && cargo test --workspace --no-fail-fast --offline",
        "source_commits": [l.strip() for l in os.popen("git -C /repo log --format=%H --grep='^verif-hooks'").read().split()],
        "add_only": True,
    },
    "engines": [
        {"name": "E1", "path": "/verif/harness/src/e1.rs", "serves_properties": ["C02", "C05", "C08", "C14", "C17"], "kind_free_text": "explicit-state BFS over (real Decoder state x monitor state) with exact-state dedup via the snapshot hook"},
        {"name": "E2", "path": "/verif/harness/src/e2.rs", "serves_properties": ["C01", "C07", "C16"], "kind_free_text": "exhaustive payload x capacity enumeration through encoders and decoder front-ends"},
        {"name": "E3", "path": "/verif/harness/src/e3.rs", "serves_properties": ["C10", "C11", "C15"], "kind_free_text": "lock-step front-end comparison and deviation-bounded byte-source fault schedules"},
        {"name": "E4", "path": "/verif/harness/src/e4.rs", "serves_properties": ["C03", "C04", "C06", "C09", "C12", "C13"], "kind_free_text": "grammar-directed exhaustive SML input enumeration against an independent reader, counting allocator"},
        {"name": "E5", "path": "/verif/harness/src/e5.rs", "serves_properties": ["C18"], "kind_free_text": "every operation sequence up to depth d on ArrayBuf<N> against an ideal bounded vector"},
    ],
    "checks": checks,
    "not_applicable": na,
    "notes": "All checks are bounded exhaustive explorations of the real code (no sampling). ./check <ID> <tier>; exit 0 held / 1 violation / 2 machinery failure. Known findings: /verif/known_findings.txt.",
}
json.dump(m, open(os.path.join(HERE, "MANIFEST.json"), "w"), indent=1)
try:
    import jsonschema
    jsonschema.validate(m, json.load(open("/root/.vp/MANIFEST.schema.json")))
    print("MANIFEST.json valid;", len(checks), "checks,", len(na), "not_applicable")
except ImportError:
    print("jsonschema not available; written without validation")
