#!/usr/bin/env python3
"""Detection demonstration: apply one realistic property-breaking change to /repo's
working tree, optionally run the repository's test suite (must stay green), run the
named quick checks (must report VIOLATION / exit 1), and always restore /repo.

  tools/mutants.py list
  tools/mutants.py run <name|all> [--suite] [--checks C01,C02] [--tier quick]

Mutants are (file, old, new) text replacements; nothing is ever committed to /repo.
Seeded changes written by independent sub-agents live in /verif/seeded/<id>/patch.diff
and are run with  tools/mutants.py seeded <id|all> [--suite].
Property-PRESERVING changes (false-alarm test) live in /verif/benign/<id>/patch.diff and are
run with  tools/mutants.py benign <id|all> [--suite] [--record]: every check must stay silent.
"""
import subprocess, sys, os, json, time, glob

REPO = "/repo"
VERIF = os.path.dirname(os.path.dirname(os.path.abspath(__file__)))

M = [
 # name, file, old, new, expected catchers (quick), note
 ("enc_no_reset_num1b", "src/transport/encode.rs", "            res.extend_from_slice(&[0x1b; 4])?;\n            num_1b = 0;", "            res.extend_from_slice(&[0x1b; 4])?;", ["C07", "C01"], "runs of >= 8 0x1b get one escape only"),
 ("padding_sticks", "src/transport/encode.rs", "self.0 = self.0.wrapping_sub(1);", "self.0 = if self.0 == 1 { 1 } else { self.0.wrapping_sub(1) };", ["C07", "C01"], "iterator encoder pad count wrong for payloads >= 256 bytes"),
 ("enc_iter_restart", "src/transport/encode.rs", "                    8 => {\n                        return None;\n                    }", "                    8 => {\n                        self.state = Init(0);\n                        return None;\n                    }", ["C07"], "iterator encoder re-arms after None"),
 ("pad_check_gt4", "src/transport/decode.rs", "let padding_too_large = num_padding_bytes > 3;", "let padding_too_large = num_padding_bytes > 4;", ["C02"], "pad count 4 accepted"),
 ("invalid_esc_keeps_zero_cache", "src/transport/decode.rs", "                        // invalid escape sequence\n\n                        self.reset(buf);", "                        // invalid escape sequence\n\n                        let z = self.zero_cache;\n                        self.reset(buf);\n                        self.zero_cache = z;", ["C14", "C02"], "withheld zeros leak into the next frame"),
 ("literal_esc_resets_zero_cache", "src/transport/decode.rs", "                        // push escape sequence bytes\n                        for b in payload {", "                        // push escape sequence bytes\n                        self.zero_cache = 0;\n                        for b in payload {", ["C01"], "zeros before a literal escape lost"),
 ("esc_chars_drop_zero", "src/transport/decode.rs", "                    // push previous 0x1b bytes as they didn't belong to an escape sequence\n                    for _ in 0..n {", "                    // push previous 0x1b bytes as they didn't belong to an escape sequence\n                    if n == 3 { self.zero_cache = 0; }\n                    for _ in 0..n {", ["C01"], "zeros before 1b1b1bXX lost"),
 ("realign_without_1a_lookahead", "src/transport/decode.rs", "                            && payload[bytes_until_alignment] == 0x1a\n", "\n", [], "may only change error behaviour on malformed frames: silence is acceptable"),
 ("reader_eof_small_pending_none", "src/transport/decoder_reader.rs", "Err(ReadDecodedError::IoErr(e, 0)) if e.is_eof() => None,", "Err(ReadDecodedError::IoErr(e, n)) if e.is_eof() && n < 9 => None,", ["C11", "C15", "C10"], "pending bytes vanish at end of input"),
 ("arraybuf_truncate_grows", "src/util.rs", "self.num_elements = self.num_elements.min(len);", "self.num_elements = if len <= N { len } else { self.num_elements };", ["C18"], "truncate can grow and expose stale bytes"),
 ("time_workaround_int4", "src/parser/common.rs", "        (tlf.ty == Ty::ListOf && tlf.len == 2) || *tlf == TypeLengthField::new(Ty::Unsigned, 4)\n    }\n\n    fn parse_with_tlf(input: &'i [u8], tlf: &TypeLengthField) -> ResTy<'i, Self> {\n        // Workaround for Holley DTZ541:\n        // For the `Time` type, this meter doesn't respect the spec.\n        // Intead of a TLF of type ListOf and length 2, it directly sends an u32 integer,\n        // which is encoded by a TLF of Unsigned and length 4 followed by four bytes containing\n        // the data.\n        if *tlf == TypeLengthField::new(Ty::Unsigned, 4) {", "        (tlf.ty == Ty::ListOf && tlf.len == 2) || (tlf.len == 4 && matches!(tlf.ty, Ty::Unsigned | Ty::Integer))\n    }\n\n    fn parse_with_tlf(input: &'i [u8], tlf: &TypeLengthField) -> ResTy<'i, Self> {\n        // Workaround for Holley DTZ541:\n        // For the `Time` type, this meter doesn't respect the spec.\n        // Intead of a TLF of type ListOf and length 2, it directly sends an u32 integer,\n        // which is encoded by a TLF of Unsigned and length 4 followed by four bytes containing\n        // the data.\n        if tlf.len == 4 && tlf.ty != Ty::ListOf {", ["C04", "C12"], "vendor workaround also taken for Integer(4) at a time position"),
 ("complete_skip_end_marker", "src/parser/complete.rs", "        let (input, _) = EndOfSmlMessage::parse(input)?;\n", "        let (input, _) = super::take_byte(input)?;\n", ["C04", "C09"], "allocating parser accepts non-00 end marker"),
 ("streaming_skip_end_marker", "src/parser/streaming.rs", "                let (input, _) = EndOfSmlMessage::parse(input)?;\n                self.input = input;", "                let (input, _) = super::take_byte(input)?;\n                self.input = input;", ["C04", "C09"], "streaming parser accepts non-00 end marker"),
 ("complete_crc_low_byte_only", "src/parser/complete.rs", "        if digest != crc {", "        if (digest & 0xff) != (crc & 0xff) {", ["C04", "C09"], "only low CRC byte compared"),
 ("streaming_no_crc_check", "src/parser/streaming.rs", "                if digest != crc {\n                    return Err(ParseError::CrcMismatch);\n                }", "                let _ = (digest, crc);", ["C04", "C09"], "streaming parser ignores checksum"),
 ("complete_ignores_trailing", "src/parser/complete.rs", "            messages.push(msg);\n            input = new_input;\n", "            messages.push(msg);\n            input = new_input;\n            if input.len() <= 2 { input = &input[input.len()..]; }\n", ["C04", "C09"], "<= 2 leftover bytes accepted"),
 ("streaming_list_off_by_one", "src/parser/streaming.rs", "self.pending_list_entries = u64::from(glr.num_vals) + 2;", "self.pending_list_entries = u64::from(glr.num_vals.max(1)) + 2;", ["C03", "C09"], "empty value list mis-parsed"),
 ("status_u64_only_width8", "src/parser/common.rs", "tlf if <u32>::check_tlf(tlf) => map(<u32>::parse_with_tlf(input, tlf), Self::Status32),\n            tlf if <u64>", "tlf if <u32>::check_tlf(tlf) => map(<u32>::parse_with_tlf(input, tlf), Self::Status32),\n            tlf if tlf.len == 8 && <u64>", ["C03", "C12"], "5-7 byte status rejected"),
 # equivalent on purpose: every check must stay silent
 ("EQUIV_done_keeps_crc", "src/transport/decode.rs", "                        let calculated_crc = {\n                            let mut crc = CRC_X25.digest();\n                            core::mem::swap(&mut crc, &mut self.crc);\n                            crc.finalize()\n                        };", "                        let calculated_crc = self.crc.clone().finalize();", [], "end sequence keeps the old digest (re-initialised at the next start sequence anyway)"),
 ("EQUIV_arraybuf_extend_scribbles", "src/util.rs", "        if self.num_elements + other.len() > N {\n            return Err(OutOfMemory);\n        }", "        if self.num_elements + other.len() > N {\n            let room = N - self.num_elements;\n            self.buffer[self.num_elements..].copy_from_slice(&other[..room]);\n            return Err(OutOfMemory);\n        }", [], "failing extend scribbles beyond the logical length"),
]

def sh(cmd, cwd=None, timeout=3600):
    return subprocess.run(cmd, shell=True, cwd=cwd, capture_output=True, text=True, timeout=timeout)

def restore():
    sh("git checkout -- . && git clean -fdq src tests", cwd=REPO)

def claimed():
    m = json.load(open(os.path.join(VERIF, "MANIFEST.json")))
    return [c["property_id"] for c in m["checks"]]

def run_checks(checks, tier):
    res = {}
    for c in checks:
        t = time.time()
        r = sh("./check %s %s" % (c, tier), cwd=VERIF)
        viol = [l for l in r.stdout.splitlines() if l.startswith("VIOLATION")]
        classes = sorted(set(l.split("[")[1].split("]")[0] for l in r.stderr.splitlines() if l.strip().startswith("violation [")))
        res[c] = (r.returncode, len(viol), time.time() - t, classes)
    return res

def suite():
    r = sh("cargo test --workspace --no-fail-fast --offline 2>&1 | grep -E '^test result|FAILED|^error' ", cwd=REPO)
    ok = r.stdout.count("test result: ok") >= 4 and "FAILED" not in r.stdout and "error" not in r.stdout
    return ok, r.stdout

def one(name, apply_fn, expected, args):
    checks = args.get("checks") or claimed()
    try:
        if not apply_fn():
            print("%-34s PATTERN/PATCH DOES NOT APPLY" % name); return
        s = ""
        if args.get("suite"):
            ok, out = suite()
            s = "suite:%s " % ("green" if ok else "RED")
        res = run_checks(checks, args.get("tier", "quick"))
        caught = [c for c, v in res.items() if v[0] == 1]
        broken = [c for c, v in res.items() if v[0] not in (0, 1)]
        exp = [e for e in expected if e in checks]
        missed = [e for e in exp if e not in caught]
        status = "CAUGHT" if caught else ("silent (expected)" if not expected else "MISSED")
        print("%-34s %s%s caught_by=%s expected=%s%s%s" % (name, s, status, ",".join(caught) or "-", ",".join(expected) or "-", (" NOT-BY=" + ",".join(missed)) if missed else "", (" MACHINERY=" + ",".join(broken)) if broken else ""))
        if args.get("record"):
            rdir = args.get("results_dir", "seeded")
            rp = os.path.join(VERIF, rdir, "RESULTS.json")
            allr = json.load(open(rp)) if os.path.exists(rp) else {}
            allr[name] = {"caught_by": caught, "expected": expected, "suite": s.strip(), "classes": {c: v[3][:3] for c, v in res.items() if v[0] == 1}}
            if rdir == "benign":
                allr[name] = {"alarms": caught, "machinery_exits": broken, "suite": s.strip(), "tier": args.get("tier", "quick"), "classes": allr[name]["classes"]}
            json.dump(allr, open(rp, "w"), indent=1, sort_keys=True)
            mp = os.path.join(VERIF, rdir, name, "meta.json") if rdir == "seeded" else "/nonexistent"
            if os.path.exists(mp):
                m = json.load(open(mp))
                m["caught_by"] = caught
                m["caught_classes"] = {c: v[3][:4] for c, v in res.items() if v[0] == 1}
                json.dump(m, open(mp, "w"), indent=1)
        if args.get("verbose"):
            for c, v in res.items():
                if v[0] == 1:
                    print("      %s: %s" % (c, "; ".join(v[3])[:400]))
    finally:
        restore()

def main():
    a = sys.argv[1:]
    if not a or a[0] == "list":
        for m in M: print("%-34s %-34s expected=%s  %s" % (m[0], m[1], ",".join(m[4]) or "-", m[5]))
        return
    args = {"suite": "--suite" in a, "verbose": "-v" in a, "record": "--record" in a}
    if "--checks" in a: args["checks"] = a[a.index("--checks") + 1].split(",")
    if "--tier" in a: args["tier"] = a[a.index("--tier") + 1]
    if sh("git status --porcelain", cwd=REPO).stdout.strip():
        print("refusing: /repo has uncommitted changes"); sys.exit(2)
    which = a[1]
    if a[0] == "run":
        for name, f, old, new, exp, note in M:
            if which != "all" and which != name: continue
            def ap(f=f, old=old, new=new):
                p = os.path.join(REPO, f); src = open(p).read()
                if src.count(old) != 1: return False
                open(p, "w").write(src.replace(old, new, 1)); return True
            one(name, ap, exp, args)
    elif a[0] == "benign":
        # property-preserving changes (refactorings, optimisations, unconstrained behaviour): every
        # check must stay silent; an alarm here is a false alarm of the machinery
        for d in sorted(glob.glob(os.path.join(VERIF, "benign", "*"))):
            sid = os.path.basename(d)
            if not os.path.isdir(d) or (which != "all" and which != sid): continue
            def ap(d=d):
                return sh("git apply %s" % os.path.join(d, "patch.diff"), cwd=REPO).returncode == 0
            args2 = dict(args); args2["results_dir"] = "benign"
            one(sid, ap, [], args2)
    elif a[0] == "seeded":
        for d in sorted(glob.glob(os.path.join(VERIF, "seeded", "*"))):
            sid = os.path.basename(d)
            if which != "all" and which != sid: continue
            meta = json.load(open(os.path.join(d, "meta.json"))) if os.path.exists(os.path.join(d, "meta.json")) else {}
            def ap(d=d):
                return sh("git apply %s" % os.path.join(d, "patch.diff"), cwd=REPO).returncode == 0
            one(sid, ap, meta.get("breaks", []), args)
    restore()

if __name__ == "__main__":
    main()
