#!/bin/sh
# vet_seeded.sh <worktree> <sub> <id>   e.g. /tmp/seed/C17 a C17a
# Confirms in the scratch worktree: patch applies, repo suite passes with it, demo fails with it
# and passes without it; then stores it as /verif/seeded/<id>/.
set -u
W="$1"; SUB="$2"; ID="$3"; O="$W/out/$SUB"
cd "$W" || exit 2
git checkout -q -- src 2>/dev/null; rm -f tests/demo.rs
git apply --check "$O/patch.diff" || { echo "$ID: PATCH DOES NOT APPLY"; exit 1; }
cp "$O/demo.rs" tests/demo.rs
BASE=$(cargo test --offline --test demo 2>&1 | grep -E "^test result" | tail -1)
git apply "$O/patch.diff"
WITH=$(cargo test --offline --test demo 2>&1 | grep -E "^test result" | tail -1)
rm -f tests/demo.rs
SUITE=$(cargo test --workspace --no-fail-fast --offline 2>&1 | grep -E "^test result|FAILED|^error" | tr '\n' ';')
git checkout -q -- src
echo "$ID: demo without change: $BASE"
echo "$ID: demo with change:    $WITH"
echo "$ID: suite with change:   $SUITE"
case "$BASE" in *"test result: ok"*) ;; *) echo "$ID: REJECT (demo does not pass on the clean tree)"; exit 1;; esac
case "$WITH" in *FAILED*) ;; *) echo "$ID: REJECT (demo does not fail with the change)"; exit 1;; esac
case "$SUITE" in *FAILED*|*error*) echo "$ID: REJECT (suite fails with the change)"; exit 1;; esac
mkdir -p /verif/seeded/$ID
cp "$O/patch.diff" "$O/demo.rs" /verif/seeded/$ID/
cp "$O/meta.json" /verif/seeded/$ID/meta.agent.json
echo "$ID: ACCEPTED -> /verif/seeded/$ID"
