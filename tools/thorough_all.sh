#!/bin/sh
for i in 01 02 03 04 05 06 07 08 09 10 11 12 13 14 15 16 17 18; do
  /usr/bin/time -f "C$i thorough: %es %MKB" ./check C$i thorough 2>&1 | grep -E "^RESULT|^VIOLATION|MACHINERY|thorough:" | cut -c1-200
done
