#!/usr/bin/env python3
"""Prints the markdown tables of DESIGN §10.1 from seeded/RESULTS.json and seeded/*/meta.json."""
import json, os, sys
V = os.path.dirname(os.path.dirname(os.path.abspath(__file__)))
r = json.load(open(os.path.join(V, "seeded", "RESULTS.json")))
def short(t, n):
    t = (t or "").replace("|", "/").replace("\n", " ")
    return t if len(t) <= n else t[: n - 3] + "..."
def rows(prefix, with_before):
    out = []
    for sid in sorted(k for k in r if k.startswith(prefix)):
        mp = os.path.join(V, "seeded", sid, "meta.json")
        if not os.path.exists(mp): continue
        m = json.load(open(mp))
        cb = ", ".join(r[sid].get("caught_by", [])) or "—"
        if r[sid].get("caught_by_thorough"): cb += " (thorough: " + ", ".join(r[sid]["caught_by_thorough"]) + ")"
        if with_before:
            b = r[sid].get("caught_by_before_strengthening")
            bs = "not run" if b is None else (", ".join(b) or "**missed**")
            out.append("| %s | %s | %s | %s | %s |" % (sid, short(m.get("summary"), 140), short(m.get("needs"), 150), bs, cb))
        else:
            out.append("| %s | %s | %s | %s |" % (sid, short(m.get("summary"), 150), short(m.get("needs"), 170), cb))
    return "\n".join(out)
which = sys.argv[1] if len(sys.argv) > 1 else "C"
print(rows(which, which != "C"))
