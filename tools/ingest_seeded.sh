#!/bin/sh
# ingest_seeded.sh <worktree> <prop> <idprefix> <origin text>
#   e.g. tools/ingest_seeded.sh /tmp/seed/G06 C06 G06 "round 8 (...)"
# Vets out/a and out/b of a sub-agent's worktree with vet_seeded.sh and, for each accepted
# change, writes /verif/seeded/<idprefix><a|b>/meta.json (breaks / needs / vetted).
set -u
W="$1"; PROP="$2"; PFX="$3"; ORIGIN="$4"
HERE=$(cd "$(dirname "$0")" && pwd)
for s in a b; do
  [ -f "$W/out/$s/patch.diff" ] || { echo "$PFX$s: no patch delivered"; continue; }
  if sh "$HERE/vet_seeded.sh" "$W" "$s" "$PFX$s"; then
    python3 - "$PFX$s" "$PROP" "$ORIGIN" <<'EOF'
import json, sys, os
sid, prop, origin = sys.argv[1:4]
d = "/verif/seeded/" + sid
try:
    a = json.load(open(d + "/meta.agent.json"))
except Exception:
    a = {}
m = {"id": sid, "breaks": [prop], "property": prop,
     "summary": a.get("summary", ""), "needs": a.get("needs", ""), "files": a.get("files", []),
     "origin": origin,
     "vetted": "tools/vet_seeded.sh in the scratch worktree (patch applies; demo passes clean, fails with the patch; repository suite 57+2+25 still passes with the patch)",
     "ran": "tools/mutants.py seeded %s --suite --record" % sid}
json.dump(m, open(d + "/meta.json", "w"), indent=1)
os.remove(d + "/meta.agent.json")
EOF
  fi
done
