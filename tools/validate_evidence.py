#!/usr/bin/env python3
import json, sys, glob, jsonschema
s = json.load(open("/root/.vp/EVIDENCE.schema.json"))
bad = 0
for f in sorted(glob.glob("/verif/evidence/*.json")):
    try:
        jsonschema.validate(json.load(open(f)), s); print("ok ", f)
    except Exception as e:
        bad += 1; print("BAD", f, str(e)[:300])
sys.exit(1 if bad else 0)
