//! Uniform, panic-catching access to the real `sml_rs::transport::Decoder<B>` for
//! every buffer kind, plus dispatch over const-generic capacities.
use sml_rs::transport::{DecodeErr, Decoder};
use sml_rs::util::{ArrayBuf, Buffer};
use std::cell::RefCell;
use std::panic::{catch_unwind, AssertUnwindSafe};

#[derive(Debug, Clone, PartialEq, Eq)]
pub enum Out {
    None,
    Msg(Vec<u8>),
    Err(DecodeErr),
    Panic(String),
}
impl Out {
    pub fn short(&self) -> String {
        match self {
            Out::None => "Ok(None)".into(),
            Out::Msg(m) => format!("Ok({})", crate::json::hex(m)),
            Out::Err(e) => format!("Err({:?})", e),
            Out::Panic(s) => format!("PANIC({})", s),
        }
    }
}

thread_local! {
    static LAST_PANIC: RefCell<String> = RefCell::new(String::new());
    static IN_GUARD: std::cell::Cell<u32> = const { std::cell::Cell::new(0) };
}
/// Silences panic output and remembers the message (per thread).
pub fn install_quiet_panic_hook() {
    std::panic::set_hook(Box::new(|info| {
        let msg = if let Some(s) = info.payload().downcast_ref::<&str>() {
            s.to_string()
        } else if let Some(s) = info.payload().downcast_ref::<String>() {
            s.clone()
        } else {
            "panic".to_string()
        };
        let loc = info.location().map(|l| format!(" at {}:{}", l.file(), l.line())).unwrap_or_default();
        // a panic outside `guarded` is a bug of this harness, not of the code under test: show it
        if IN_GUARD.with(|g| g.get()) == 0 {
            eprintln!("MACHINERY-ERROR: harness panic: {}{}", msg, loc);
        }
        LAST_PANIC.with(|p| *p.borrow_mut() = format!("{}{}", msg, loc));
    }));
}
pub fn install_quiet_panic_hook_once() {
    static ONCE: std::sync::Once = std::sync::Once::new();
    ONCE.call_once(install_quiet_panic_hook);
}
pub fn last_panic() -> String {
    LAST_PANIC.with(|p| p.borrow().clone())
}
/// Runs `f`, converting a panic into `Err(message)`.
pub fn guarded<T>(f: impl FnOnce() -> T) -> Result<T, String> {
    IN_GUARD.with(|g| g.set(g.get() + 1));
    let r = catch_unwind(AssertUnwindSafe(f));
    IN_GUARD.with(|g| g.set(g.get() - 1));
    r.map_err(|_| last_panic())
}

#[derive(Debug, Clone, Copy, PartialEq, Eq, Hash, PartialOrd, Ord)]
pub enum BufKind {
    Vec,
    Arr(usize),
}
impl BufKind {
    pub fn name(self) -> String {
        match self {
            BufKind::Vec => "Vec".into(),
            BufKind::Arr(n) => format!("ArrayBuf<{}>", n),
        }
    }
    pub fn parse(s: &str) -> Option<BufKind> {
        if s == "Vec" {
            return Some(BufKind::Vec);
        }
        let n = s.strip_prefix("ArrayBuf<")?.strip_suffix('>')?.parse().ok()?;
        Some(BufKind::Arr(n))
    }
    pub fn cap(self) -> Option<usize> {
        match self {
            BufKind::Vec => None,
            BufKind::Arr(n) => Some(n),
        }
    }
}

/// Capacities for which `ArrayBuf<N>` is instantiated in this harness.
pub const CAPS: &[usize] = &[0, 1, 2, 3, 4, 5, 6, 7, 8, 9, 10, 11, 12, 13, 14, 15, 16, 17, 18, 19, 20, 21, 22, 23, 24, 25, 26, 27, 28, 29, 30, 31, 32, 33, 48, 64, 255, 256, 257, 1023, 1024, 1025, 8191, 8192, 8193, 65535, 65536, 65537, 70000];
pub fn has_cap(n: usize) -> bool {
    CAPS.contains(&n)
}

pub trait BufVisitor {
    type Out;
    fn visit<B: Buffer + crate::fe::MkBuilder + Send + 'static>(self) -> Self::Out;
}
macro_rules! caps_match {
    ($n:expr, $v:expr, [$($c:literal),*]) => {
        match $n { $( $c => Some($v.visit::<ArrayBuf<$c>>()), )* _ => None }
    };
}
/// Calls `v.visit::<B>()` with the buffer type named by `kind`; `None` if that
/// capacity is not instantiated.
pub fn with_buf<V: BufVisitor>(kind: BufKind, v: V) -> Option<V::Out> {
    match kind {
        BufKind::Vec => Some(v.visit::<Vec<u8>>()),
        BufKind::Arr(n) => caps_match!(n, v, [0, 1, 2, 3, 4, 5, 6, 7, 8, 9, 10, 11, 12, 13, 14, 15, 16, 17, 18, 19, 20, 21, 22, 23, 24, 25, 26, 27, 28, 29, 30, 31, 32, 33, 48, 64, 255, 256, 257, 1023, 1024, 1025, 8191, 8192, 8193, 65535, 65536, 65537, 70000]),
    }
}

/// Harness-side copy of the decoder snapshot (the hook's `DecoderSnapshot` when the `hooks`
/// feature is built, an opaque constant otherwise).
#[derive(Debug, Clone, PartialEq, Eq, Hash)]
pub struct Snap {
    pub tag: u8,
    pub num_discarded_bytes: u64,
    pub n: u64,
    pub payload: [u8; 4],
    pub raw_msg_len: u64,
    pub crc: u16,
    pub zero_cache: u64,
    pub buf: Vec<u8>,
}
impl Snap {
    pub const OPAQUE_TAG: u8 = 254;
    pub fn opaque() -> Snap {
        Snap { tag: Snap::OPAQUE_TAG, num_discarded_bytes: 0, n: 0, payload: [0; 4], raw_msg_len: 0, crc: 0, zero_cache: 0, buf: vec![] }
    }
    pub fn is_opaque(&self) -> bool {
        self.tag == Snap::OPAQUE_TAG
    }
}
#[cfg(feature = "hooks")]
impl From<sml_rs::transport::DecoderSnapshot> for Snap {
    fn from(s: sml_rs::transport::DecoderSnapshot) -> Snap {
        Snap { tag: s.tag, num_discarded_bytes: s.num_discarded_bytes, n: s.n, payload: s.payload, raw_msg_len: s.raw_msg_len, crc: s.crc, zero_cache: s.zero_cache, buf: s.buf }
    }
}
#[cfg(feature = "hooks")]
impl Snap {
    pub fn to_hook(&self) -> sml_rs::transport::DecoderSnapshot {
        sml_rs::transport::DecoderSnapshot { tag: self.tag, num_discarded_bytes: self.num_discarded_bytes, n: self.n, payload: self.payload, raw_msg_len: self.raw_msg_len, crc: self.crc, zero_cache: self.zero_cache, buf: self.buf.clone() }
    }
}
/// Are the hooks compiled in at all?
pub const HOOKS_BUILT: bool = cfg!(feature = "hooks");

/// The checksum that makes the frame in progress valid, from a snapshot: reference CRC continued
/// from the register the hook exposes over the bytes received but not yet hashed.
pub fn wanted_from_snap(s: &Snap) -> u16 {
    let reg = s.crc ^ 0xffff;
    let pend: &[u8] = if s.tag == 3 { &s.payload[..(s.n as usize).min(4)] } else { &[] };
    let upto = match pend.iter().position(|&x| x == 0x1a) {
        Some(k) => (k + 2).min(pend.len()),
        None => pend.len(),
    };
    crate::refm::crc_update(reg, &pend[..upto]) ^ 0xffff
}
/// The same without any hook: reference CRC over the bytes since the last start sequence in
/// `hist` (up to and including `1a p` if the tail is an end sequence in progress).
pub fn wanted_from_history(hist: &[u8]) -> u16 {
    let start = hist.windows(8).rposition(|w| w == crate::refm::START).unwrap_or(0);
    let f = &hist[start..];
    let l = f.len();
    let upto = if l >= 3 && f[l - 3] == 0x1a { l - 1 } else { l };
    crate::refm::crc_x25(&f[..upto])
}

/// Object-safe view of a real decoder.
pub trait Dec: Send {
    fn push(&mut self, b: u8) -> Out;
    fn finalize(&mut self) -> Result<Option<DecodeErr>, String>;
    fn reset(&mut self) -> Result<usize, String>;
    fn snap(&self) -> Snap;
    fn dup(&self) -> Box<dyn Dec>;
    /// identity of this object's history when states must not be merged (stateless fallback)
    fn hist_key(&self, _out: &mut Vec<u8>) {}
    /// the checksum bytes that can make the frame in progress valid (state-adaptive symbols)
    fn wanted(&self) -> u16 {
        wanted_from_snap(&self.snap())
    }
}

/// `false` once the hook fidelity check has found that `verif_clone` / `verif_restore` do not
/// carry the complete decoder state (e.g. a field was added to the decoder). Decoders are then
/// duplicated by replaying their history on a new decoder, and states are never merged.
pub static HOOKS_COMPLETE: std::sync::atomic::AtomicBool = std::sync::atomic::AtomicBool::new(HOOKS_BUILT);
pub fn hooks_complete() -> bool {
    HOOKS_COMPLETE.load(std::sync::atomic::Ordering::Relaxed)
}

#[derive(Clone, Copy, PartialEq, Eq)]
enum HistOp {
    Run(u8, u32),
    Fin,
    Reset,
}
/// Decoder that remembers everything done to it and duplicates itself by replay - needs no hook.
struct ReplayDec {
    inner: Box<dyn Dec>,
    kind: BufKind,
    hist: Vec<HistOp>,
}
impl Dec for ReplayDec {
    fn push(&mut self, b: u8) -> Out {
        match self.hist.last_mut() {
            Some(HistOp::Run(x, n)) if *x == b => *n += 1,
            _ => self.hist.push(HistOp::Run(b, 1)),
        }
        self.inner.push(b)
    }
    fn finalize(&mut self) -> Result<Option<DecodeErr>, String> {
        self.hist.push(HistOp::Fin);
        self.inner.finalize()
    }
    fn reset(&mut self) -> Result<usize, String> {
        self.hist.push(HistOp::Reset);
        self.inner.reset()
    }
    fn snap(&self) -> Snap {
        self.inner.snap()
    }
    fn dup(&self) -> Box<dyn Dec> {
        let mut d = with_buf(self.kind, NewDec).expect("capacity");
        for op in &self.hist {
            match *op {
                HistOp::Run(b, n) => {
                    for _ in 0..n {
                        let _ = d.push(b);
                    }
                }
                HistOp::Fin => {
                    let _ = d.finalize();
                }
                HistOp::Reset => {
                    let _ = d.reset();
                }
            }
        }
        Box::new(ReplayDec { inner: d, kind: self.kind, hist: self.hist.clone() })
    }
    fn wanted(&self) -> u16 {
        if HOOKS_BUILT {
            return self.inner.wanted();
        }
        let mut bytes: Vec<u8> = vec![];
        for op in self.hist.iter().rev() {
            match *op {
                HistOp::Run(b, n) => {
                    for _ in 0..n.min(70_000) {
                        bytes.push(b);
                    }
                }
                _ => break, // finalize / reset: nothing before it belongs to the frame in progress
            }
            if bytes.len() > 140_000 {
                break;
            }
        }
        bytes.reverse();
        wanted_from_history(&bytes)
    }
    fn hist_key(&self, out: &mut Vec<u8>) {
        for op in &self.hist {
            match *op {
                HistOp::Run(b, n) => {
                    out.push(1);
                    out.push(b);
                    out.extend_from_slice(&n.to_le_bytes());
                }
                HistOp::Fin => out.push(2),
                HistOp::Reset => out.push(3),
            }
        }
    }
}
impl<B: Buffer + Send + 'static> Dec for Decoder<B> {
    fn push(&mut self, b: u8) -> Out {
        match guarded(|| match self.push_byte(b) {
            Ok(None) => Out::None,
            Ok(Some(m)) => Out::Msg(m.to_vec()),
            Err(e) => Out::Err(e),
        }) {
            Ok(o) => o,
            Err(p) => Out::Panic(p),
        }
    }
    fn finalize(&mut self) -> Result<Option<DecodeErr>, String> {
        guarded(|| Decoder::finalize(self))
    }
    fn reset(&mut self) -> Result<usize, String> {
        guarded(|| Decoder::reset(self))
    }
    #[cfg(feature = "hooks")]
    fn snap(&self) -> Snap {
        self.verif_snapshot().into()
    }
    #[cfg(feature = "hooks")]
    fn dup(&self) -> Box<dyn Dec> {
        Box::new(self.verif_clone().expect("verif_clone: buffer copy failed"))
    }
    #[cfg(not(feature = "hooks"))]
    fn snap(&self) -> Snap {
        Snap::opaque()
    }
    #[cfg(not(feature = "hooks"))]
    fn dup(&self) -> Box<dyn Dec> {
        unreachable!("without hooks decoders are only duplicated by replay")
    }
}
struct NewDec;
impl BufVisitor for NewDec {
    type Out = Box<dyn Dec>;
    fn visit<B: Buffer + crate::fe::MkBuilder + Send + 'static>(self) -> Box<dyn Dec> {
        Box::new(Decoder::<B>::new())
    }
}
pub fn new_dec(kind: BufKind) -> Box<dyn Dec> {
    let d = with_buf(kind, NewDec).unwrap_or_else(|| crate::report::machinery(&format!("capacity {:?} not instantiated", kind)));
    if hooks_complete() {
        d
    } else {
        Box::new(ReplayDec { inner: d, kind, hist: vec![] })
    }
}
