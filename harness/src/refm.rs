//! Reference models for the transport layer: bit-wise CRC-16/X.25, the canonical
//! Transport-v1 encoder, a recogniser that never has to be trusted, the start
//! sequence matcher and the receiver-side accounting monitor (DESIGN §5).
//! Shares no code with sml-rs or with the `crc` crate.

pub const START: [u8; 8] = [0x1b, 0x1b, 0x1b, 0x1b, 0x01, 0x01, 0x01, 0x01];
pub const ESC: [u8; 4] = [0x1b; 4];

/// Raw (un-finalised) register update, reflected polynomial 0x1021 -> 0x8408.
pub fn crc_update(mut reg: u16, bytes: &[u8]) -> u16 {
    for &b in bytes {
        reg ^= b as u16;
        for _ in 0..8 {
            reg = if reg & 1 != 0 { (reg >> 1) ^ 0x8408 } else { reg >> 1 };
        }
    }
    reg
}
/// CRC-16/X.25 (a.k.a. IBM-SDLC): init 0xffff, refin/refout, xorout 0xffff.
pub fn crc_x25(bytes: &[u8]) -> u16 {
    crc_update(0xffff, bytes) ^ 0xffff
}

/// The canonical Transport-v1 frame of payload `m` (spec-level encoder).
pub fn canon(m: &[u8]) -> Vec<u8> {
    let mut f = Vec::with_capacity(m.len() + m.len() / 4 + 20);
    f.extend_from_slice(&START);
    let mut run = 0;
    for &b in m {
        f.push(b);
        if b == 0x1b {
            run += 1;
        } else {
            run = 0;
        }
        if run == 4 {
            f.extend_from_slice(&ESC);
            run = 0;
        }
    }
    let pad = (4 - f.len() % 4) % 4;
    for _ in 0..pad {
        f.push(0);
    }
    f.extend_from_slice(&ESC);
    f.push(0x1a);
    f.push(pad as u8);
    let c = crc_x25(&f);
    f.extend_from_slice(&c.to_le_bytes());
    f
}

/// Proposes the only payload `frame` could be the canonical frame of and accepts
/// it only if `canon` reproduces `frame` exactly.
pub fn recognise(frame: &[u8]) -> Option<Vec<u8>> {
    if frame.len() < 16 || frame.len() % 4 != 0 {
        return None;
    }
    let e = &frame[frame.len() - 8..];
    if e[..5] != [0x1b, 0x1b, 0x1b, 0x1b, 0x1a] || e[5] > 3 {
        return None;
    }
    let body = &frame[8..frame.len() - 8];
    if (e[5] as usize) > body.len() {
        return None;
    }
    let data = &body[..body.len() - e[5] as usize];
    let mut m = Vec::with_capacity(data.len());
    let mut run = 0;
    let mut i = 0;
    while i < data.len() {
        let b = data[i];
        m.push(b);
        i += 1;
        if b == 0x1b {
            run += 1
        } else {
            run = 0
        }
        if run == 4 {
            i += 4;
            run = 0;
        }
    }
    if canon(&m) == frame {
        Some(m)
    } else {
        None
    }
}

/// KMP automaton for `1b1b1b1b01010101`; state = number of matched bytes.
pub fn kmp(st: u8, b: u8) -> u8 {
    match (st, b) {
        (0..=3, 0x1b) => st + 1,
        (4, 0x1b) => 4,
        (4..=7, 0x01) => st + 1,
        (5..=7, 0x1b) => 1,
        _ => 0,
    }
}

/// Does `s` contain the start sequence, and if so where does its first occurrence end?
pub fn first_start_end(s: &[u8]) -> Option<usize> {
    let mut st = 0;
    for (i, &b) in s.iter().enumerate() {
        st = kmp(st, b);
        if st == 8 {
            return Some(i + 1);
        }
    }
    None
}

/// Offsets at which the canonical frame of `p` can be cut such that no 0x1b run
/// and no escape sequence is in progress (the cut-off rule of C08). Derived from
/// the construction of the frame, not by re-parsing it: offsets are lengths of
/// the kept prefix, always >= 8 (the start sequence) and before the end sequence.
pub fn neutral_cut_offsets(p: &[u8]) -> Vec<usize> {
    let mut res = vec![8];
    let mut off = 8;
    let mut run = 0;
    for &b in p {
        off += 1;
        if b == 0x1b {
            run += 1;
        } else {
            run = 0;
        }
        if run == 4 {
            // the inserted escape follows; only after it the escape is complete
            off += 4;
            run = 0;
        }
        if run == 0 {
            res.push(off);
        }
    }
    if run == 0 {
        // padding zeros
        let pad = (4 - off % 4) % 4;
        for _ in 0..pad {
            off += 1;
            res.push(off);
        }
    }
    res
}

#[cfg(test)]
mod tests {
    use super::*;
    #[test]
    fn crc_check_value() {
        assert_eq!(crc_x25(b"123456789"), 0x906e);
    }
    #[test]
    fn canon_doc_example() {
        let f = canon(&[0x12, 0x34, 0x56, 0x78]);
        assert_eq!(
            f,
            vec![0x1b, 0x1b, 0x1b, 0x1b, 1, 1, 1, 1, 0x12, 0x34, 0x56, 0x78, 0x1b, 0x1b, 0x1b, 0x1b, 0x1a, 0, 0xb8, 0x7b]
        );
        assert_eq!(recognise(&f), Some(vec![0x12, 0x34, 0x56, 0x78]));
    }
}
