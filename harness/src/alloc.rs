//! Counting global allocator: observes every request made on a thread while that
//! thread is "armed" (largest single request, peak live bytes, number of calls).
//! Requests of 64 MiB and more are served lazily from reserved address space
//! (mmap MAP_NORESERVE) so that a length-field-sized allocation is *observed and
//! reported* by the check instead of aborting the process.
use std::alloc::{GlobalAlloc, Layout, System};
use std::cell::Cell;

pub struct CountingAlloc;

const BIG: usize = 64 << 20;

thread_local! {
    static ARMED: Cell<bool> = const { Cell::new(false) };
    static CUR: Cell<usize> = const { Cell::new(0) };
    static PEAK: Cell<usize> = const { Cell::new(0) };
    static MAXREQ: Cell<usize> = const { Cell::new(0) };
    static NCALLS: Cell<usize> = const { Cell::new(0) };
    /// Requests of at least this many bytes made on this thread fail (null), as an exhausted heap would.
    static FAIL_FROM: Cell<usize> = const { Cell::new(usize::MAX) };
    static FAILED: Cell<usize> = const { Cell::new(0) };
}
#[inline]
fn must_fail(size: usize) -> bool {
    FAIL_FROM
        .try_with(|f| {
            if size >= f.get() {
                let _ = FAILED.try_with(|n| n.set(n.get() + 1));
                true
            } else {
                false
            }
        })
        .unwrap_or(false)
}
/// Runs `f` while every allocation request of `from` bytes or more made on this thread fails.
/// Returns the result and the number of requests refused.
pub fn with_failing_allocations<T>(from: usize, f: impl FnOnce() -> T) -> (T, usize) {
    FAILED.with(|n| n.set(0));
    FAIL_FROM.with(|c| c.set(from));
    let r = f();
    FAIL_FROM.with(|c| c.set(usize::MAX));
    (r, FAILED.with(|n| n.get()))
}

#[inline]
fn note_alloc(size: usize) {
    let _ = ARMED.try_with(|a| {
        if a.get() {
            CUR.with(|c| {
                let v = c.get().saturating_add(size);
                c.set(v);
                PEAK.with(|p| {
                    if v > p.get() {
                        p.set(v)
                    }
                });
            });
            MAXREQ.with(|m| {
                if size > m.get() {
                    m.set(size)
                }
            });
            NCALLS.with(|n| n.set(n.get() + 1));
        }
    });
}
#[inline]
fn note_free(size: usize) {
    let _ = ARMED.try_with(|a| {
        if a.get() {
            CUR.with(|c| c.set(c.get().saturating_sub(size)));
        }
    });
}

unsafe impl GlobalAlloc for CountingAlloc {
    unsafe fn alloc(&self, layout: Layout) -> *mut u8 {
        if must_fail(layout.size()) {
            return std::ptr::null_mut();
        }
        note_alloc(layout.size());
        if layout.size() >= BIG {
            let p = libc::mmap(
                std::ptr::null_mut(),
                layout.size(),
                libc::PROT_READ | libc::PROT_WRITE,
                libc::MAP_PRIVATE | libc::MAP_ANONYMOUS | libc::MAP_NORESERVE,
                -1,
                0,
            );
            if p == libc::MAP_FAILED {
                return std::ptr::null_mut();
            }
            return p as *mut u8;
        }
        System.alloc(layout)
    }
    unsafe fn dealloc(&self, ptr: *mut u8, layout: Layout) {
        note_free(layout.size());
        if layout.size() >= BIG {
            libc::munmap(ptr as *mut libc::c_void, layout.size());
            return;
        }
        System.dealloc(ptr, layout)
    }
    unsafe fn realloc(&self, ptr: *mut u8, layout: Layout, new_size: usize) -> *mut u8 {
        if new_size > layout.size() && must_fail(new_size) {
            return std::ptr::null_mut();
        }
        if layout.size() < BIG && new_size < BIG {
            note_free(layout.size());
            note_alloc(new_size);
            return System.realloc(ptr, layout, new_size);
        }
        let new_layout = Layout::from_size_align_unchecked(new_size, layout.align());
        let np = self.alloc(new_layout);
        if !np.is_null() {
            std::ptr::copy_nonoverlapping(ptr, np, layout.size().min(new_size));
            self.dealloc(ptr, layout);
        }
        np
    }
}

#[derive(Debug, Clone, Copy, Default, PartialEq, Eq)]
pub struct AllocStats {
    pub max_request: usize,
    pub peak_live: usize,
    pub calls: usize,
}
/// Runs `f` with this thread's allocation counters armed (and reset).
pub fn measure<T>(f: impl FnOnce() -> T) -> (T, AllocStats) {
    CUR.with(|c| c.set(0));
    PEAK.with(|c| c.set(0));
    MAXREQ.with(|c| c.set(0));
    NCALLS.with(|c| c.set(0));
    ARMED.with(|a| a.set(true));
    let r = f();
    ARMED.with(|a| a.set(false));
    let st = AllocStats { max_request: MAXREQ.with(|c| c.get()), peak_live: PEAK.with(|c| c.get()), calls: NCALLS.with(|c| c.get()) };
    (r, st)
}
/// Is the counting allocator actually installed? (self-test used by the C06 check)
pub fn self_test() -> bool {
    let (_v, st) = measure(|| {
        let v: Vec<u8> = Vec::with_capacity(12345);
        std::hint::black_box(v)
    });
    st.max_request >= 12345 && st.calls >= 1
}

/// Resets this thread's counters (without arming).
pub fn reset() {
    CUR.with(|c| c.set(0));
    PEAK.with(|c| c.set(0));
    MAXREQ.with(|c| c.set(0));
    NCALLS.with(|c| c.set(0));
}
/// Runs `f` armed, accumulating into the current counters.
pub fn accumulate<T>(f: impl FnOnce() -> T) -> T {
    ARMED.with(|a| a.set(true));
    let r = f();
    ARMED.with(|a| a.set(false));
    r
}
pub fn stats() -> AllocStats {
    AllocStats { max_request: MAXREQ.with(|c| c.get()), peak_live: PEAK.with(|c| c.get()), calls: NCALLS.with(|c| c.get()) }
}
