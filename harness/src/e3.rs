//! Engine E3 — driver / fault explorer (C15, C11, C10): symbol streams through all
//! seven front-ends in lock step; every placement of up to k byte-source deviations
//! on a choice-driven `io::Read`; every per-call choice of target type and
//! read/next of `SmlReader` over every source and buffer kind.
use crate::dec::{guarded, BufKind, BufVisitor};
use crate::e1::{full_alphabet, path_str, parse_path, Gen2, Node, StepInfo, Sym};
use crate::fe::{conv_read, evs_short, run_default_readers, run_frontends, Ev, FeSet, IoK, MkBuilder, OneByteRead};
use crate::json::{hex, unhex, J};
use crate::mon::Mon;
use crate::par::par_chunks;
use crate::refm::canon;
use crate::report::{finish, machinery, Counts, Ctx, Tally, Tier, Viol};
use crate::sml::*;
use sml_rs::parser::complete::File;
use sml_rs::parser::streaming::Parser;
use sml_rs::transport::DecodeErr;
use sml_rs::util::Buffer;
use sml_rs::{DecodedBytes, ReadParsedError, SmlReader};
use std::cell::Cell;

fn assumptions() -> Vec<String> {
    vec![
        "the push decoder's results (decided by C01/C02/C08/C14/C17) are the reference for the other front-ends (C15) and for the fault-free behaviour of the readers (C11)".into(),
        "end of input is persistent (a source that answered Ok(0) keeps doing so); deviations are placed before it".into(),
        "64-bit host, features std+alloc+nb".into(),
    ]
}

// ------------------------------------------------------------------ C15
fn c15_alphabet() -> Vec<Sym> {
    full_alphabet().into_iter().filter(|s| !matches!(s, Sym::Fin | Sym::Reset | Sym::Tail(4))).collect()
}
/// Concrete bytes of a symbol path (adaptive checksum bytes follow a `Vec`-buffer decoder).
pub fn concretize(path: &[Sym]) -> Vec<u8> {
    let mut n = Node::new(BufKind::Vec);
    let mut g = Gen2::default();
    for &s in path {
        let mut info = StepInfo::default();
        n.apply(s, &mut info, &mut g);
    }
    g.1
}
fn c15_stream(stream: &[u8], key: &str, case: J, size: usize, out: &mut Vec<Viol>, counts: &mut Counts) {
    let mut bad = |class: &str, what: String| out.push(Viol { class: class.into(), key: key.to_string(), what, case: case.clone(), size });
    let mut refs: Vec<(BufKind, Vec<Ev>)> = vec![];
    for kind in [BufKind::Vec, BufKind::Arr(64), BufKind::Arr(2)] {
        let traces = run_frontends(kind, stream, FeSet::All);
        let push = &traces[0];
        let mut expect_reader = push.events.clone();
        if let Some(n) = push.finalize_n {
            expect_reader.pop();
            expect_reader.push(Ev::Io(IoK::Eof, n));
        }
        for t in &traces[1..] {
            counts.inc("front-end runs compared with the push decoder");
            let want = if t.is_reader() { &expect_reader } else { &push.events };
            if &t.events != want {
                bad(
                    "C15 front-end reports different results than the push decoder for the same bytes",
                    format!("{} with {}: stream {} : expected {} got {}", t.name, kind.name(), hex(stream), evs_short(want), evs_short(&t.events)),
                );
            }
        }
        for e in &push.events {
            if matches!(e, Ev::Panic(_) | Ev::Hang | Ev::AfterEnd(_)) {
                bad("C05 front-end panics, hangs or produces results after its end", format!("push decoder with {}: {}", kind.name(), e.short()));
            }
        }
        refs.push((kind, push.normalized()));
    }
    // the buffer type must not matter while its capacity is not exceeded
    if refs[0].1 != refs[1].1 {
        bad("C15 Vec and a sufficiently large ArrayBuf give different results", format!("stream {} : Vec {} ArrayBuf<64> {}", hex(stream), evs_short(&refs[0].1), evs_short(&refs[1].1)));
    }
    for t in run_default_readers(stream) {
        counts.inc("front-end runs compared with the push decoder");
        if t.normalized() != refs[0].1 {
            bad("C15 front-end reports different results than the push decoder for the same bytes", format!("{}: stream {} : expected {} got {}", t.name, hex(stream), evs_short(&refs[0].1), evs_short(&t.events)));
        }
    }
    if refs[0].1.iter().any(|e| matches!(e, Ev::Msg(_))) {
        counts.inc("streams with a delivered frame");
    }
    if refs[2].1.iter().any(|e| matches!(e, Ev::Dec(DecodeErr::OutOfMemory))) {
        counts.inc("streams with OutOfMemory under ArrayBuf<2>");
    }
    if refs[0].1.len() >= 2 {
        counts.inc("streams with two or more results");
    }
}
fn c15_path(path: &[Sym], out: &mut Vec<Viol>, counts: &mut Counts) {
    let stream = concretize(path);
    let key = format!("path={}", path_str(path).replace(' ', ","));
    let case = J::obj().set("engine", "e3").set("check", "C15").set("path", path_str(path));
    c15_stream(&stream, &key, case, path.len() * 100 + stream.len(), out, counts);
}

pub fn run_c15(tier: Tier) -> ! {
    let ctx = Ctx::new("C15", tier);
    let alpha = c15_alphabet();
    let depth = tier.pick(5u32, 6);
    let k = alpha.len() as u64;
    let mut tally = Tally::new();
    let mut counts = Counts::default();
    let mut nstreams = 0u64;
    // roots: idle and right after a start sequence, so that depth is spent inside frames too
    for root in [vec![], vec![Sym::Esc, Sym::Som], vec![Sym::B(0x1b), Sym::Esc, Sym::Som, Sym::B(0x00)]] {
        let total: u64 = (0..=depth).map(|l| k.pow(l)).sum();
        let parts = par_chunks(total, 256, |a, b| {
            let mut t = Tally::new();
            let mut c = Counts::default();
            let mut out = vec![];
            for idx in a..b {
                let mut i = idx;
                let mut len = 0u32;
                while i >= k.pow(len) {
                    i -= k.pow(len);
                    len += 1;
                }
                let mut path = vec![Sym::Esc; len as usize];
                for j in (0..len as usize).rev() {
                    path[j] = alpha[(i % k) as usize];
                    i /= k;
                }
                let mut full = root.clone();
                full.extend(path);
                out.clear();
                c15_path(&full, &mut out, &mut c);
                for v in out.drain(..) {
                    t.add(v);
                }
            }
            (t, c)
        });
        for (t, c) in parts {
            tally.merge(t);
            counts.merge(&c);
        }
        nstreams += total;
        ctx.log(&format!("root [{}]: {} streams (symbol depth <= {}), violations so far {}", path_str(&root), total, depth, tally.total()));
    }
    // whole frames and long streams: the payload families of C01, one and two frames with noise
    let longs = crate::e2::long_payloads(Tier::Quick, &crate::e2::PI);
    let shorts = crate::e2::count_upto(5, tier.pick(4, 6));
    let total = shorts + longs.len() as u64;
    let parts = par_chunks(total, 64, |a, b| {
        let mut t = Tally::new();
        let mut c = Counts::default();
        let mut out = vec![];
        for idx in a..b {
            let p = if idx < shorts { crate::e2::nth_string(idx, &crate::e2::PI) } else { longs[(idx - shorts) as usize].clone() };
            let mut s = vec![0x1b];
            s.extend(canon(&p));
            s.extend_from_slice(&[0x55, 0x1b, 0x1b]);
            s.extend(canon(&p[..p.len().min(2)]));
            s.extend_from_slice(&[0x1b, 0x1b, 0x1b, 0x1b, 0x01]);
            out.clear();
            let key = format!("frames:{}", if p.len() <= 32 { hex(&p) } else { format!("len{}#{}", p.len(), idx) });
            let case = J::obj().set("engine", "e3").set("check", "C15").set("stream", hex(&s));
            if p.len() <= 60 {
                c15_stream(&s, &key, case, s.len(), &mut out, &mut c);
            } else {
                // long streams: growable and default buffers only
                let mut traces = run_frontends(BufKind::Vec, &s, FeSet::All);
                if p.len() <= 65537 {
                    // a fixed buffer that is large enough must not change anything (its own counters!)
                    traces.extend(run_frontends(BufKind::Arr(65537), &s, FeSet::Core));
                }
                let push = traces[0].normalized();
                for tr in traces[1..].iter().chain(run_default_readers(&s).iter()) {
                    c.inc("front-end runs compared with the push decoder");
                    if tr.normalized() != push && !(tr.name.contains("default") && p.len() > 8192) {
                        out.push(Viol { class: "C15 front-end reports different results than the push decoder for the same bytes".into(), key: key.clone(), what: format!("{}: expected {} got {}", tr.name, evs_short(&push[..push.len().min(4)]), evs_short(&tr.events[..tr.events.len().min(4)])), case: case.clone(), size: s.len() });
                    }
                }
            }
            for v in out.drain(..) {
                t.add(v);
            }
        }
        (t, c)
    });
    for (t, c) in parts {
        tally.merge(t);
        counts.merge(&c);
    }
    nstreams += total;
    // long leftovers: what is pending at the end of input (or discarded before a frame) is longer
    // than 2^8 / 2^16 bytes, idle noise as well as an unfinished transmission
    {
        let mut cases: Vec<(Vec<u8>, bool, String)> = vec![];
        for l in [255usize, 256, 257, 4095, 4096, 4097, 65535, 65536, 65537, 70000, 131075] {
            let mut s1 = canon(&[0x42]);
            s1.extend(std::iter::repeat(0x55).take(l));
            cases.push((s1, true, format!("frame + {} noise bytes", l)));
            let mut s2 = canon(&[0x42]);
            s2.extend_from_slice(&crate::refm::START);
            s2.extend((0..l).map(|i| if i % 7 == 3 { 0x00 } else { 0x55 }));
            cases.push((s2, false, format!("frame + unfinished transmission of {} bytes", l)));
            let mut s3: Vec<u8> = std::iter::repeat(0x55).take(l).collect();
            s3.extend_from_slice(&[0x1b, 0x1b]);
            s3.extend(canon(&[0x42]));
            s3.extend_from_slice(&[0x1b, 0x1b, 0x1b, 0x1b, 0x01]);
            cases.push((s3, true, format!("{} noise bytes + 1b1b + frame + partial start", l)));
        }
        let parts = par_chunks(cases.len() as u64, 1, |a, _| {
            let (s, with_default, name) = &cases[a as usize];
            let mut out = vec![];
            let mut c = Counts::default();
            let case = J::obj().set("engine", "e3").set("check", "C15").set("stream", hex(s));
            let mut traces = run_frontends(BufKind::Vec, s, FeSet::All);
            if s.len() <= 69000 {
                traces.extend(run_frontends(BufKind::Arr(70000), s, FeSet::Core));
            }
            let push = traces[0].normalized();
            let defaults = if *with_default { run_default_readers(s) } else { vec![] };
            for tr in traces[1..].iter().chain(defaults.iter()) {
                c.inc("front-end runs compared with the push decoder");
                c.inc("front-end runs on streams with a long leftover");
                if tr.normalized() != push {
                    out.push(Viol { class: "C15 front-end reports different results than the push decoder for the same bytes".into(), key: format!("long leftover: {}", name), what: format!("{} on {}: expected {} got {}", tr.name, name, evs_short(&push[..push.len().min(4)]), evs_short(&tr.events[..tr.events.len().min(4)])), case: case.clone(), size: s.len() });
                }
            }
            (out, c)
        });
        for (o, c) in parts {
            for v in o {
                tally.add(v);
            }
            counts.merge(&c);
        }
        nstreams += cases.len() as u64;
    }
    // multi-frame streams (1 ... 300 / 1000 frames with noise, rejected and aborted frames in between)
    let nmax = tier.pick(300usize, 1000);
    let items: Vec<(usize, usize)> = (1..=nmax).filter(|n| n % 5 == 1 || (250..=260).contains(n) || *n == nmax).flat_map(|n| (0..4).map(move |v| (n, v))).collect();
    let parts = par_chunks(items.len() as u64, 2, |a, b| {
        let mut t = Tally::new();
        let mut c = Counts::default();
        let mut out = vec![];
        for i in a..b {
            let (n, variant) = items[i as usize];
            let (s, _) = crate::e2::many_frames_stream(n, variant);
            let key = format!("frames={},variant={}", n, variant);
            let case = J::obj().set("engine", "e3").set("check", "C15").set("stream", hex(&s));
            c15_stream(&s, &key, case, s.len(), &mut out, &mut c);
            c.inc("multi-frame streams");
            for v in out.drain(..) {
                t.add(v);
            }
        }
        (t, c)
    });
    for (t, c) in parts {
        tally.merge(t);
        counts.merge(&c);
    }
    nstreams += items.len() as u64;
    counts.require(&["streams with a delivered frame", "streams with OutOfMemory under ArrayBuf<2>", "streams with two or more results"]);
    let evals = counts.get("front-end runs compared with the push decoder");
    let cov = J::obj()
        .set("states", nstreams)
        .set("transitions", evals)
        .set("traces_validated_against_impl", evals)
        .set("evaluations", evals)
        .set("distinct_nontrivial", counts.get("streams with a delivered frame") + counts.get("streams with OutOfMemory under ArrayBuf<2>"))
        .set("rule", "every symbol string (6 byte classes, adaptive checksum bytes, ESC SOM TAIL0-3 TAILX) up to the stated depth from three roots, plus framed payload families with noise; each stream through 7 front-ends x {Vec, ArrayBuf<64>, ArrayBuf<2>} and the three default-buffer readers; states = streams, transitions = front-end executions compared with the push decoder; non-trivial = streams with a delivered frame or an OutOfMemory")
        .set("samples", vec!["1b ESC SOM 00 ESC TAIL1", "ESC SOM 55 1b ESC TAIL2 CLO", "1b + frame(payload) + 551b1b + frame(payload[..2]) + 1b1b1b1b01"])
        .set("symbol_depth", depth)
        .set("outcomes", counts.to_json())
        .set("exhaustive", true);
    finish(&ctx, cov, assumptions(), tally, &crate::replay_case)
}

// ------------------------------------------------------------------ C11: fault schedules
#[derive(Clone, Copy, PartialEq, Eq, Debug, PartialOrd, Ord)]
pub enum Fault {
    WouldBlock,
    Interrupted,
    Other,
    BrokenPipe,
    TimedOut,
    /// 300 consecutive `Interrupted` answers at one position (one deviation)
    IntrBurst,
    /// `Err(ErrorKind::UnexpectedEof)` from the source: end of input by the library's own
    /// classification, but the source carries on afterwards
    ErrEof,
    Eof,
    /// any other error an `io::Read` can raise; used in single-deviation schedules.
    /// index < OTHER_KINDS.len(): `io::Error::new(OTHER_KINDS[i], ..)`; 1000 + n: `io::Error::from_raw_os_error(n)`
    Kind(u16),
}
pub const OTHER_KINDS: [std::io::ErrorKind; 36] = {
    use std::io::ErrorKind::*;
    [
        NotFound, PermissionDenied, ConnectionRefused, ConnectionReset, ConnectionAborted, NotConnected, AddrInUse, AddrNotAvailable, AlreadyExists, InvalidInput, InvalidData, WriteZero, Unsupported, OutOfMemory, BrokenPipe, TimedOut,
        HostUnreachable, NetworkUnreachable, NetworkDown, NotADirectory, IsADirectory, DirectoryNotEmpty, ReadOnlyFilesystem, StaleNetworkFileHandle, StorageFull, NotSeekable, QuotaExceeded, FileTooLarge, ResourceBusy, ExecutableFileBusy, Deadlock, CrossesDevices, TooManyLinks, InvalidFilename, ArgumentListTooLong, Other,
    ]
};
/// errno values handed to `io::Error::from_raw_os_error` (Linux numbers them 1..=133)
pub const OS_ERRORS: std::ops::RangeInclusive<u16> = 1..=133;
/// every index `Fault::Kind` takes in single-deviation schedules
pub fn all_kind_indices() -> Vec<u16> {
    (0..OTHER_KINDS.len() as u16).chain(OS_ERRORS.map(|n| 1000 + n)).collect()
}
fn kind_error(k: u16) -> std::io::Error {
    if k >= 1000 {
        std::io::Error::from_raw_os_error((k - 1000) as i32)
    } else {
        std::io::Error::new(OTHER_KINDS[k as usize % OTHER_KINDS.len()], "kind")
    }
}
/// How the reference reader treats a fault: by the `std::io::ErrorKind` of the error the source
/// raises (std's own classification of errno values, not the crate's).
#[derive(Clone, Copy, PartialEq, Eq, Debug)]
enum FaultClass {
    WouldBlock,
    Retry,
    ErrEof,
    Other,
    Eof,
}
impl Fault {
    fn error(self) -> Option<std::io::Error> {
        use std::io::{Error, ErrorKind};
        Some(match self {
            Fault::IntrBurst | Fault::Interrupted => Error::new(ErrorKind::Interrupted, "intr"),
            Fault::ErrEof => Error::new(ErrorKind::UnexpectedEof, "eof"),
            Fault::Kind(k) => kind_error(k),
            Fault::WouldBlock => Error::new(ErrorKind::WouldBlock, "wb"),
            Fault::Other => Error::new(ErrorKind::Other, "other"),
            Fault::BrokenPipe => Error::new(ErrorKind::BrokenPipe, "pipe"),
            Fault::TimedOut => Error::new(ErrorKind::TimedOut, "timeout"),
            Fault::Eof => return None,
        })
    }
    fn class(self) -> FaultClass {
        match self.error() {
            None => FaultClass::Eof,
            Some(e) => match e.kind() {
                std::io::ErrorKind::WouldBlock => FaultClass::WouldBlock,
                std::io::ErrorKind::Interrupted => FaultClass::Retry,
                std::io::ErrorKind::UnexpectedEof => FaultClass::ErrEof,
                _ => FaultClass::Other,
            },
        }
    }
}
impl Fault {
    const ALL: [Fault; 8] = [Fault::WouldBlock, Fault::Interrupted, Fault::Other, Fault::BrokenPipe, Fault::TimedOut, Fault::IntrBurst, Fault::ErrEof, Fault::Eof];
    /// what an `embedded_hal::serial::Read` can answer besides a byte
    const EH: [Fault; 2] = [Fault::WouldBlock, Fault::Other];
    fn token(self) -> String {
        match self {
            Fault::Kind(k) if k >= 1000 => format!("Errno{}", k - 1000),
            Fault::Kind(k) => format!("Kind{:?}", OTHER_KINDS[k as usize % OTHER_KINDS.len()]),
            Fault::WouldBlock => "WouldBlock".into(),
            Fault::Interrupted => "Interrupted".into(),
            Fault::Other => "Other".into(),
            Fault::BrokenPipe => "BrokenPipe".into(),
            Fault::TimedOut => "TimedOut".into(),
            Fault::IntrBurst => "InterruptedX300".into(),
            Fault::ErrEof => "ErrUnexpectedEof".into(),
            Fault::Eof => "Eof".into(),
        }
    }
    fn parse(s: &str) -> Option<Fault> {
        Fault::ALL.iter().copied().chain(all_kind_indices().into_iter().map(Fault::Kind)).find(|f| f.token() == s)
    }
}
/// Choice-driven `io::Read`: call number c of `read` deviates if the schedule says so,
/// otherwise hands out the next byte (or `Ok(0)` at the end, persistently).
struct SchedRead<'a> {
    s: &'a [u8],
    i: usize,
    call: usize,
    sched: &'a [(usize, Fault)],
    eof: bool,
    calls_seen: &'a Cell<usize>,
    burst_left: usize,
}
impl<'a> std::io::Read for SchedRead<'a> {
    fn read(&mut self, buf: &mut [u8]) -> std::io::Result<usize> {
        // a burst of interruptions occupies one schedule slot: its repeats do not advance the
        // call counter that the schedule refers to
        if self.burst_left > 0 {
            self.burst_left -= 1;
            return Err(std::io::Error::new(std::io::ErrorKind::Interrupted, "intr"));
        }
        let c = self.call;
        self.call += 1;
        self.calls_seen.set(self.call);
        if self.eof || buf.is_empty() {
            return Ok(0);
        }
        if let Some((_, f)) = self.sched.iter().find(|(k, _)| *k == c) {
            match f {
                Fault::IntrBurst => {
                    self.burst_left = 299;
                    return Err(f.error().unwrap());
                }
                Fault::Eof => {
                    self.eof = true;
                    return Ok(0);
                }
                _ => return Err(f.error().unwrap()),
            }
        }
        if self.i >= self.s.len() {
            self.eof = true;
            return Ok(0);
        }
        buf[0] = self.s[self.i];
        self.i += 1;
        Ok(1)
    }
}

/// Choice-driven `embedded_hal::serial::Read`: no notion of end of input; when the stream is
/// exhausted it answers WouldBlock forever.
struct SchedEh<'a> {
    s: &'a [u8],
    i: usize,
    call: usize,
    sched: &'a [(usize, Fault)],
}
impl<'a> embedded_hal::serial::Read<u8> for SchedEh<'a> {
    type Error = u16;
    fn read(&mut self) -> nb::Result<u8, u16> {
        let c = self.call;
        self.call += 1;
        if let Some((_, f)) = self.sched.iter().find(|(k, _)| *k == c) {
            match f {
                Fault::WouldBlock => return Err(nb::Error::WouldBlock),
                _ => return Err(nb::Error::Other(0x100 + c as u16)),
            }
        }
        if self.i >= self.s.len() {
            return Err(nb::Error::WouldBlock);
        }
        self.i += 1;
        Ok(self.s[self.i - 1])
    }
}

#[derive(Clone, Copy, PartialEq, Eq, Debug)]
pub enum Driver {
    Next,
    Read,
    NextNb,
    ReadNb,
}
impl Driver {
    const ALL: [Driver; 4] = [Driver::Next, Driver::Read, Driver::NextNb, Driver::ReadNb];
    fn token(self) -> &'static str {
        match self {
            Driver::Next => "next",
            Driver::Read => "read",
            Driver::NextNb => "next_nb",
            Driver::ReadNb => "read_nb",
        }
    }
}
/// One observed call result; `None` = the iterator-style end signal.
type CallRes = Option<Ev>;

/// Identity of a byte-source error as far as a caller can tell it apart from others.
trait ErrIdent {
    fn ident(&self) -> String;
}
impl ErrIdent for std::io::Error {
    fn ident(&self) -> String {
        format!("{:?}", self.kind())
    }
}
impl ErrIdent for nb::Error<u16> {
    fn ident(&self) -> String {
        format!("{:?}", self)
    }
}
/// `conv_read`, additionally noting which error came back with every "other read error" result.
fn conv_read_id<E: sml_rs::util::ByteSourceErr + ErrIdent>(r: Result<&[u8], sml_rs::transport::ReadDecodedError<E>>, ids: &mut Vec<String>) -> Ev {
    if let Err(sml_rs::transport::ReadDecodedError::IoErr(e, _)) = &r {
        if crate::fe::iok(e) == IoK::Other {
            ids.push(e.ident());
        }
    }
    conv_read(r)
}
fn conv_nb<E: sml_rs::util::ByteSourceErr + ErrIdent>(r: nb::Result<&[u8], sml_rs::transport::ReadDecodedError<E>>, ids: &mut Vec<String>) -> Ev {
    match r {
        Ok(m) => Ev::Msg(m.to_vec()),
        Err(nb::Error::WouldBlock) => Ev::Io(IoK::WouldBlock, 0),
        Err(nb::Error::Other(e)) => conv_read_id(Err(e), ids),
    }
}

/// Drives the real reader over the scheduled source; stops after two consecutive end
/// signals (next: None; read: IoErr(Eof, 0)) or `max_calls`.
macro_rules! drive_loop {
    ($rd:expr, $drv:expr, $max_calls:expr, $res:expr, $stop_at_end:expr, $ids:expr) => {{
        let mut rd = $rd;
        let drv = $drv;
        let res = &mut $res;
        let ids = &mut $ids;
        let mut ends = 0;
        for _ in 0..$max_calls {
            let r: CallRes = match drv {
                Driver::Next => rd.next::<DecodedBytes>().map(|r| conv_read_id(r, ids)),
                Driver::Read => Some(conv_read_id(rd.read::<DecodedBytes>(), ids)),
                Driver::NextNb => match rd.next_nb::<DecodedBytes>() {
                    Ok(None) => None,
                    Ok(Some(m)) => Some(Ev::Msg(m.to_vec())),
                    Err(nb::Error::WouldBlock) => Some(Ev::Io(IoK::WouldBlock, 0)),
                    Err(nb::Error::Other(e)) => Some(conv_read_id(Err(e), ids)),
                },
                Driver::ReadNb => Some(conv_nb(rd.read_nb::<DecodedBytes>(), ids)),
            };
            let is_end = matches!(r, None | Some(Ev::Io(IoK::Eof, 0)));
            res.push(r);
            if is_end && $stop_at_end {
                ends += 1;
                if ends >= 2 {
                    break;
                }
            } else {
                ends = 0;
            }
        }
    }};
}
/// Same over the embedded-hal byte source (exactly `ncalls` calls, there is no end of input).
fn drive_real_eh(stream: &[u8], sched: &[(usize, Fault)], drv: Driver, ncalls: usize) -> (Vec<CallRes>, Vec<String>) {
    let mut res: Vec<CallRes> = vec![];
    let mut ids: Vec<String> = vec![];
    let r = guarded(|| {
        let src = SchedEh { s: stream, i: 0, call: 0, sched };
        // the reader's type is spelled out: the builder must hand back the buffer that was asked for
        let rd = SmlReader::with_static_buffer::<64>().from_eh_reader(src);
        drive_loop!(rd, drv, ncalls, res, false, ids);
    });
    if let Err(p) = r {
        res.push(Some(Ev::Panic(p)));
    }
    (res, ids)
}
fn drive_real(stream: &[u8], sched: &[(usize, Fault)], drv: Driver, max_calls: usize) -> (Vec<CallRes>, usize, Vec<String>) {
    let calls = Cell::new(0usize);
    let mut res: Vec<CallRes> = vec![];
    let mut ids: Vec<String> = vec![];
    let r = guarded(|| {
        let src = SchedRead { s: stream, i: 0, call: 0, sched, eof: false, calls_seen: &calls, burst_left: 0 };
        let rd = SmlReader::with_static_buffer::<64>().from_reader(src);
        drive_loop!(rd, drv, max_calls, res, true, ids);
    });
    if let Err(p) = r {
        res.push(Some(Ev::Panic(p)));
    }
    (res, calls.get(), ids)
}

/// Fault-free segment knowledge: events with positions and the unaccounted count at
/// every position, for `stream[from..]` read by a fresh reader.
struct Segment {
    events: Vec<(usize, Ev)>,
    unacc: Vec<usize>,
    len: usize,
}
fn segment(stream: &[u8]) -> Segment {
    let mut d = crate::dec::new_dec(BufKind::Arr(64));
    let mut m = Mon::new(Some(64));
    let mut sink = vec![];
    let mut events = vec![];
    let mut unacc = vec![0usize];
    for (i, &b) in stream.iter().enumerate() {
        let o = d.push(b);
        m.byte(b, &o, &mut sink);
        match o {
            crate::dec::Out::None => {}
            crate::dec::Out::Msg(x) => events.push((i + 1, Ev::Msg(x))),
            crate::dec::Out::Err(e) => events.push((i + 1, Ev::Dec(e))),
            crate::dec::Out::Panic(p) => events.push((i + 1, Ev::Panic(p))),
        }
        unacc.push(m.unacc);
    }
    Segment { events, unacc, len: stream.len() }
}
/// The reference reader of C11: what each call must return, given the stream, the
/// schedule and the driver. Differential: uses the fault-free decoding of each segment.
fn drive_ref(stream: &[u8], sched: &[(usize, Fault)], drv: Driver, max_calls: usize, eh: bool) -> (Vec<CallRes>, Vec<String>) {
    let mut res = vec![];
    let mut ids: Vec<String> = vec![];
    let mut seg_from = 0usize;
    let mut seg = segment(stream);
    let mut p = 0usize; // bytes of the current segment consumed
    let mut call = 0usize; // read() call counter
    let mut eof = false;
    let mut ends = 0;
    let is_next = matches!(drv, Driver::Next | Driver::NextNb);
    for _ in 0..max_calls {
        // one reader call: read until something is reportable
        let r: CallRes = loop {
            let c = call;
            call += 1;
            let fault = if eof { None } else { sched.iter().find(|(k, _)| *k == c).map(|x| x.1) };
            if eh && fault.is_none() && p >= seg.len {
                // an embedded-hal source has no end of input: nothing more arrives
                break Some(Ev::Io(IoK::WouldBlock, 0));
            }
            let at_end = eof || (fault.is_none() && p >= seg.len) || fault == Some(Fault::Eof);
            if at_end {
                eof = true;
                let n = seg.unacc[p];
                // everything consumed so far is given up: continue like a fresh reader at the end of input
                seg_from += p;
                seg = segment(&stream[stream.len().min(seg_from)..stream.len().min(seg_from)]);
                p = 0;
                break if n == 0 && is_next { None } else { Some(Ev::Io(IoK::Eof, n)) };
            }
            // an embedded-hal source knows two answers besides a byte: WouldBlock and an error value
            let class = fault.map(|f| if eh && f != Fault::WouldBlock { FaultClass::Other } else { f.class() });
            match class {
                Some(FaultClass::WouldBlock) => break Some(Ev::Io(IoK::WouldBlock, 0)),
                Some(FaultClass::Retry) => continue,
                Some(FaultClass::ErrEof) => {
                    // classified as end of input: pending bytes are given up and reported, nothing
                    // pending means the iterator-style end signal; the source itself goes on
                    let n = seg.unacc[p];
                    seg_from += p;
                    seg = segment(&stream[seg_from..]);
                    p = 0;
                    break if n == 0 && is_next { None } else { Some(Ev::Io(IoK::Eof, n)) };
                }
                Some(FaultClass::Other) => {
                    let n = seg.unacc[p];
                    seg_from += p;
                    seg = segment(&stream[seg_from..]);
                    p = 0;
                    ids.push(if eh { nb::Error::Other(0x100 + c as u16).ident() } else { format!("{:?}", fault.unwrap().error().unwrap().kind()) });
                    break Some(Ev::Io(IoK::Other, n));
                }
                Some(FaultClass::Eof) => unreachable!(),
                None => {
                    p += 1;
                    if let Some((_, e)) = seg.events.iter().find(|(ps, _)| *ps == p) {
                        break Some(e.clone());
                    }
                }
            }
        };
        let is_end = matches!(r, None | Some(Ev::Io(IoK::Eof, 0)));
        res.push(r);
        if is_end && !eh {
            ends += 1;
            if ends >= 2 {
                break;
            }
        } else {
            ends = 0;
        }
    }
    (res, ids)
}
fn callres_short(v: &[CallRes]) -> String {
    let mut s = String::from("[");
    for (i, r) in v.iter().enumerate() {
        if i > 0 {
            s.push_str(", ");
        }
        match r {
            None => s.push_str("None"),
            Some(e) => s.push_str(&e.short()),
        }
    }
    s.push(']');
    s
}
fn sched_str(s: &[(usize, Fault)]) -> String {
    s.iter().map(|(c, f)| format!("{}:{}", c, f.token())).collect::<Vec<_>>().join(",")
}
fn c11_case(stream: &[u8], sched: &[(usize, Fault)], drv: Driver, eh: bool, out: &mut Vec<Viol>, counts: &mut Counts) {
    let max_calls = stream.len() + sched.len() + 8;
    let ((got, got_ids), (want, want_ids)) = if eh {
        // per call at most one byte-source fault or one result: len + faults + 4 calls see everything
        let n = sched.len() + 6 + stream.len() / 8;
        (drive_real_eh(stream, sched, drv, n), drive_ref(stream, sched, drv, n, true))
    } else {
        let r = drive_real(stream, sched, drv, max_calls);
        ((r.0, r.2), drive_ref(stream, sched, drv, max_calls, false))
    };
    counts.inc(if eh { "schedules run (embedded-hal source)" } else { "schedules run" });
    if got.iter().any(|r| matches!(r, Some(Ev::Io(IoK::WouldBlock, _)))) {
        counts.inc("schedules with a visible WouldBlock");
    }
    if got.iter().any(|r| matches!(r, Some(Ev::Io(IoK::Other, n)) if *n > 0)) {
        counts.inc("schedules where an error discards pending bytes");
    }
    if got.iter().any(|r| matches!(r, Some(Ev::Io(IoK::Eof, n)) if *n > 0)) {
        counts.inc("schedules where end of input finds pending bytes");
    }
    if got.iter().any(|r| matches!(r, Some(Ev::Io(IoK::WouldBlock, _)) | Some(Ev::Io(IoK::Other, _))) || matches!(r, Some(Ev::Io(IoK::Eof, n)) if *n > 0)) {
        counts.inc("schedules in which a fault became visible");
    }
    if got == want && got_ids != want_ids {
        out.push(Viol {
            class: "C11 the read error handed to the caller is not the one the byte source raised".into(),
            key: format!("{}:{}{}:[{}]", hex(stream), drv.token(), if eh { "/eh" } else { "" }, sched_str(sched)),
            what: format!("stream {} driver {} schedule [{}]: the source raised {:?}, the reader returned {:?}", hex(stream), drv.token(), sched_str(sched), want_ids, got_ids),
            case: J::obj().set("engine", "e3").set("check", "C11").set("stream", hex(stream)).set("driver", drv.token()).set("schedule", sched_str(sched)).set("source", if eh { "embedded-hal" } else { "io::Read" }),
            size: sched.len() * 1000 + stream.len(),
        });
    }
    if got != want {
        let class = if got.iter().any(|r| matches!(r, Some(Ev::Panic(_)))) { "C05 reader panics under a byte-source fault" } else { "C11 reader results under byte-source faults differ from the reference reader" };
        out.push(Viol {
            class: class.into(),
            key: format!("{}:{}{}:[{}]", hex(stream), drv.token(), if eh { "/eh" } else { "" }, sched_str(sched)),
            what: format!("stream {} driver {} schedule [{}] (read-call index:fault): expected {} got {}", hex(stream), drv.token(), sched_str(sched), callres_short(&want), callres_short(&got)),
            case: J::obj().set("engine", "e3").set("check", "C11").set("stream", hex(stream)).set("driver", drv.token()).set("schedule", sched_str(sched)).set("source", if eh { "embedded-hal" } else { "io::Read" }),
            size: sched.len() * 1000 + stream.len(),
        });
    }
}
fn c11_streams() -> Vec<Vec<u8>> {
    let mut v = vec![];
    // plain frame; frame with escape, withheld zeros and re-alignment; noise + frame + noise;
    // rejected frame then frame; two frames back to back; in-frame restart; only noise
    v.push(canon(&[0x12, 0x34]));
    v.push(canon(&[0x00, 0x1b, 0x1b, 0x1b, 0x1b, 0x00, 0x00, 0x1b]));
    let mut s = vec![0x55, 0x1b];
    s.extend(canon(&[0x00, 0x00, 0x00]));
    s.extend_from_slice(&[0x1b, 0x1b, 0x01]);
    v.push(s);
    let mut s = canon(&[0x55]);
    let l = s.len();
    s[l - 1] ^= 1;
    s.extend(canon(&[0x01]));
    v.push(s);
    let mut s = canon(&[]);
    s.extend(canon(&[0x1a, 0x1b]));
    v.push(s);
    let mut s = crate::refm::START.to_vec();
    s.extend_from_slice(&[0x55, 0x00, 0x00]);
    s.extend(canon(&[0x02]));
    v.push(s);
    v.push(vec![0x1b, 0x1b, 0x1b, 0x1b, 0x01, 0x01, 0x55]);
    let mut s = crate::refm::START.to_vec();
    s.extend_from_slice(&[0x1b, 0x1b, 0x1b, 0x1b, 0x55, 0x55, 0x55, 0x55]);
    s.extend(canon(&[0x55, 0x55, 0x55]));
    v.push(s);
    v.push(vec![]);
    v
}
/// All schedules with exactly `k` deviations among the first `ncalls` read calls.
fn for_each_schedule(ncalls: usize, k: usize, f: &mut dyn FnMut(&[(usize, Fault)])) {
    fn rec(ncalls: usize, from: usize, k: usize, cur: &mut Vec<(usize, Fault)>, f: &mut dyn FnMut(&[(usize, Fault)])) {
        if k == 0 {
            f(cur);
            return;
        }
        for c in from..ncalls {
            for fl in Fault::ALL {
                cur.push((c, fl));
                rec(ncalls, c + 1, k - 1, cur, f);
                cur.pop();
            }
        }
    }
    rec(ncalls, 0, k, &mut vec![], f);
}

/// Runs /verif/stdonly (sml-rs with default features only) and converts its FINDING lines.
fn stdonly_findings(counts: &mut Counts) -> Vec<Viol> {
    let mut out = vec![];
    let bin = match std::env::var("VERIF_STDONLY_BIN") {
        Ok(b) => b,
        Err(_) => {
            // direct invocation of the binary without ./check: nothing to run
            counts.inc("std-only driver not available (run through ./check)");
            return out;
        }
    };
    let o = match std::process::Command::new(&bin).output() {
        Ok(o) => o,
        Err(e) => crate::report::machinery(&format!("std-only driver {}: {}", bin, e)),
    };
    let text = String::from_utf8_lossy(&o.stdout).to_string();
    let mut runs = None;
    for l in text.lines() {
        if let Some(r) = l.strip_prefix("FINDING ") {
            let mut it = r.splitn(3, " :: ");
            let class = it.next().unwrap_or("").to_string();
            let key = it.next().unwrap_or("").to_string();
            let what = it.next().unwrap_or("").to_string();
            out.push(Viol { class, key: format!("stdonly:{}", key), what, case: J::obj().set("engine", "e3").set("check", "C11std").set("key", key.clone()), size: key.len() });
        } else if let Some(r) = l.strip_prefix("RUNS ") {
            runs = r.split_whitespace().next().and_then(|x| x.parse::<u64>().ok());
        }
    }
    match runs {
        Some(n) if o.status.success() => counts.addn("schedules run on the default-feature build", n),
        _ => crate::report::machinery(&format!("std-only driver ended abnormally ({:?}): {}", o.status, text.lines().last().unwrap_or(""))),
    }
    out
}

pub fn run_c11(tier: Tier) -> ! {
    let ctx = Ctx::new("C11", tier);
    let mut tally = Tally::new();
    let mut counts = Counts::default();
    let streams = c11_streams();
    let kmax = tier.pick(3usize, 4);
    // work items: (stream, driver, budget, first deviation) for parallelism
    let mut items: Vec<(usize, Driver, usize, usize)> = vec![];
    for (si, s) in streams.iter().enumerate() {
        for drv in Driver::ALL {
            for k in 0..=kmax {
                if k == 3 && tier == Tier::Quick && (s.len() > 32 || !matches!(drv, Driver::Next | Driver::ReadNb)) {
                    continue; // quick tier, three deviations: shorter streams, two drivers
                }
                if k == 4 && (s.len() > 24 || !matches!(drv, Driver::Next)) {
                    continue; // four deviations: the short streams, driver next
                }
                let ncalls = s.len() + k + 2;
                if k == 0 {
                    items.push((si, drv, 0, 0));
                } else {
                    for first in 0..ncalls {
                        items.push((si, drv, k, first));
                    }
                }
            }
        }
    }
    let parts = par_chunks(items.len() as u64, 4, |a, b| {
        let mut t = Tally::new();
        let mut c = Counts::default();
        let mut out = vec![];
        for i in a..b {
            let (si, drv, k, first) = items[i as usize];
            let s = &streams[si];
            let ncalls = s.len() + k + 2;
            if k == 0 {
                c11_case(s, &[], drv, false, &mut out, &mut c);
                c11_case(s, &[], drv, true, &mut out, &mut c);
                // every other std::io::ErrorKind, once, at every position
                for pos in 0..s.len() + 2 {
                    for kk in all_kind_indices() {
                        c11_case(s, &[(pos, Fault::Kind(kk))], drv, false, &mut out, &mut c);
                    }
                }
            } else {
                for fl in Fault::ALL {
                    // remaining k-1 deviations after `first`
                    let mut cur = vec![(first, fl)];
                    fn rec(ncalls: usize, from: usize, k: usize, cur: &mut Vec<(usize, Fault)>, f: &mut dyn FnMut(&[(usize, Fault)])) {
                        if k == 0 {
                            f(cur);
                            return;
                        }
                        for cc in from..ncalls {
                            for fl in Fault::ALL {
                                cur.push((cc, fl));
                                rec(ncalls, cc + 1, k - 1, cur, f);
                                cur.pop();
                            }
                        }
                    }
                    rec(ncalls, first + 1, k - 1, &mut cur, &mut |sc| {
                        c11_case(s, sc, drv, false, &mut out, &mut c);
                        if sc.iter().all(|(_, f)| Fault::EH.contains(f)) {
                            c11_case(s, sc, drv, true, &mut out, &mut c);
                        }
                    });
                }
            }
            for v in out.drain(..) {
                t.add(v);
            }
        }
        (t, c)
    });
    for (t, c) in parts {
        tally.merge(t);
        counts.merge(&c);
    }
    // long pending counts: a fault or the end of input after 2^8 / 2^16 and more unreported bytes
    {
        let mut out = vec![];
        for l in [255usize, 256, 257, 65535, 65536, 65537, 70000] {
            let mut st: Vec<u8> = (0..l).map(|i| if i % 5 == 4 { 0x1b } else { 0x55 }).collect();
            st.extend(canon(&[0x42]));
            for drv in Driver::ALL {
                for fl in [Fault::Other, Fault::ErrEof, Fault::Eof, Fault::TimedOut, Fault::WouldBlock] {
                    for pos in [l - 1, l, l + 3] {
                        c11_case(&st, &[(pos, fl)], drv, false, &mut out, &mut counts);
                        c11_case(&st, &[(1, Fault::WouldBlock), (pos, fl)], drv, false, &mut out, &mut counts);
                        counts.inc("schedules on streams with a long pending count");
                    }
                }
                c11_case(&st[..l], &[], drv, false, &mut out, &mut counts);
            }
        }
        for v in out {
            tally.add(v);
        }
    }
    // the same property on the crate built with its default features (separate binary, see /verif/stdonly)
    for v in stdonly_findings(&mut counts) {
        tally.add(v);
    }
    let _ = for_each_schedule;
    ctx.log(&format!("{} streams, <= {} deviations: outcomes {:?}", streams.len(), kmax, counts.0));
    counts.require(&["schedules with a visible WouldBlock", "schedules where an error discards pending bytes", "schedules where end of input finds pending bytes"]);
    let n = counts.get("schedules run") + counts.get("schedules run (embedded-hal source)");
    let cov = J::obj()
        .set("evaluations", n)
        .set("distinct_nontrivial", counts.get("schedules in which a fault became visible"))
        .set("rule", "choice points = every call of io::Read::read made by the reader; default answer = next byte (Ok(0) at the end, persistently); deviations = WouldBlock, Interrupted, a burst of 300 Interrupted, Other, BrokenPipe, TimedOut, Err(UnexpectedEof) (and, in single-deviation schedules, each of 36 further std::io::ErrorKind values and io::Error::from_raw_os_error(n) for every errno 1..=133, classified by std's own kind()); the kind of every returned 'other' error (the error value for the embedded-hal source) is compared with what the source raised, premature persistent end of input (io::Read source) and WouldBlock, Other (embedded-hal serial source, which has no end of input); every placement of up to k deviations (same position repeated included) on each stream, for the drivers next / read / next_nb / read_nb, run to completion and compared call by call with the reference reader; non-trivial = schedules in which a fault became visible or cost pending bytes")
        .set("samples", vec!["stream 1b1b1b1b0101010112340000 1b1b1b1b1a02.... driver next schedule [3:WouldBlock,9:Other]", "stream 55 1b + frame(000000) + 1b1b01 driver read_nb schedule [0:Interrupted,1:Interrupted]"])
        .set("states", n)
        .set("transitions", n)
        .set("traces_validated_against_impl", n)
        .set("streams", streams.iter().map(|s| hex(s)).collect::<Vec<_>>())
        .set("max_deviations", kmax)
        .set("outcomes", counts.to_json())
        .set("exhaustive", true);
    let mut ctx = ctx;
    ctx.level = "fault_enumeration";
    finish(&ctx, cov, assumptions(), tally, &crate::replay_case)
}

// ------------------------------------------------------------------ C10: end to end
#[derive(Clone, Debug, PartialEq, Eq)]
pub enum Res {
    /// `next` returned None
    End,
    Bytes(Vec<u8>),
    File(Result<RFile, String>),
    /// streaming events re-assembled, and the error kind if the iteration ended in an error
    Events(RFile, Option<String>),
    DecodeErr(DecodeErr),
    Io(IoK, usize),
    WouldBlock,
    Panic(String),
}
fn res_short(r: &Res) -> String {
    match r {
        Res::End => "None".into(),
        Res::Bytes(b) => format!("Bytes({})", hex(&b[..b.len().min(12)])),
        Res::File(Ok(f)) => format!("File({} msgs)", f.len()),
        Res::File(Err(e)) => format!("ParseErr({})", e),
        Res::Events(f, e) => format!("Events({} msgs, err {:?})", f.len(), e),
        Res::DecodeErr(e) => format!("DecodeErr({:?})", e),
        Res::Io(k, n) => format!("IoErr({:?},{})", k, n),
        Res::WouldBlock => "WouldBlock".into(),
        Res::Panic(p) => format!("PANIC({})", p),
    }
}
fn conv_parsed<E: sml_rs::util::ByteSourceErr + core::fmt::Debug>(r: Result<File, ReadParsedError<E>>) -> Res {
    match r {
        Ok(f) => Res::File(Ok(from_complete(&f))),
        Err(ReadParsedError::ParseErr(e)) => Res::File(Err(kind(&e))),
        Err(ReadParsedError::DecodeErr(e)) => Res::DecodeErr(e),
        Err(ReadParsedError::IoErr(e, n)) => Res::Io(crate::fe::iok(&e), n),
    }
}
fn conv_parser<E: sml_rs::util::ByteSourceErr>(r: Result<Parser, sml_rs::transport::ReadDecodedError<E>>) -> Res {
    match r {
        Ok(p) => {
            let mut msgs = RFile::new();
            let mut err = None;
            // re-assemble through the same code as the parser checks, from the parser handed out
            let mut open = false;
            for item in p.take(100_000) {
                match item {
                    Err(e) => {
                        err = Some(kind(&e));
                        break;
                    }
                    Ok(ev) => match ev {
                        sml_rs::parser::streaming::ParseEvent::MessageStart(m) => {
                            use sml_rs::parser::streaming::MessageBody as MB;
                            #[allow(unreachable_patterns)]
                            let body = match &m.message_body {
                                other if false => RBody::Other(format!("{:?}", other)),
                                MB::OpenResponse(o) => RBody::Open { codepage: o.codepage.map(|x| x.to_vec()), client_id: o.client_id.map(|x| x.to_vec()), req_file_id: o.req_file_id.to_vec(), server_id: o.server_id.to_vec(), ref_time: o.ref_time.as_ref().map(crate::sml::t), sml_version: o.sml_version },
                                MB::CloseResponse(c) => RBody::Close { sig: c.global_signature.map(|x| x.to_vec()) },
                                MB::GetListResponse(g) => {
                                    open = true;
                                    RBody::GetList { client_id: g.client_id.map(|x| x.to_vec()), server_id: g.server_id.to_vec(), list_name: g.list_name.map(|x| x.to_vec()), act_sensor_time: g.act_sensor_time.as_ref().map(crate::sml::t), vals: vec![], list_sig: None, act_gateway_time: None }
                                }
                            };
                            msgs.push(RMsg { tid: m.transaction_id.to_vec(), group: m.group_no, abort: m.abort_on_error, body });
                        }
                        sml_rs::parser::streaming::ParseEvent::ListEntry(e) => {
                            if let (true, Some(RMsg { body: RBody::GetList { vals, .. }, .. })) = (open, msgs.last_mut()) {
                                vals.push(conv_entry(&e));
                            }
                        }
                        sml_rs::parser::streaming::ParseEvent::GetListResponseEnd(g) => {
                            if let (true, Some(RMsg { body: RBody::GetList { list_sig, act_gateway_time, .. }, .. })) = (open, msgs.last_mut()) {
                                *list_sig = g.list_signature.map(|x| x.to_vec());
                                *act_gateway_time = g.act_gateway_time.as_ref().map(crate::sml::t);
                            }
                            open = false;
                        }
                    },
                }
            }
            Res::Events(msgs, err)
        }
        Err(sml_rs::transport::ReadDecodedError::DecodeErr(e)) => Res::DecodeErr(e),
        Err(sml_rs::transport::ReadDecodedError::IoErr(e, n)) => Res::Io(crate::fe::iok(&e), n),
    }
}
fn conv_bytes<E: sml_rs::util::ByteSourceErr>(r: Result<&[u8], sml_rs::transport::ReadDecodedError<E>>) -> Res {
    match r {
        Ok(b) => Res::Bytes(b.to_vec()),
        Err(sml_rs::transport::ReadDecodedError::DecodeErr(e)) => Res::DecodeErr(e),
        Err(sml_rs::transport::ReadDecodedError::IoErr(e, n)) => Res::Io(crate::fe::iok(&e), n),
    }
}
/// choice c: 0..=2 next::<DecodedBytes|File|Parser>, 3..=5 read::<..>, 6..=8 next_nb, 9..=11 read_nb
pub const NCHOICE: usize = 12;
macro_rules! one_call {
    ($rd:expr, $c:expr) => {{
        match $c {
            0 => $rd.next::<DecodedBytes>().map(conv_bytes).unwrap_or(Res::End),
            1 => $rd.next::<File>().map(conv_parsed).unwrap_or(Res::End),
            2 => $rd.next::<Parser>().map(conv_parser).unwrap_or(Res::End),
            3 => conv_bytes($rd.read::<DecodedBytes>()),
            4 => conv_parsed($rd.read::<File>()),
            5 => conv_parser($rd.read::<Parser>()),
            6 => match $rd.next_nb::<DecodedBytes>() {
                Ok(None) => Res::End,
                Ok(Some(b)) => Res::Bytes(b.to_vec()),
                Err(nb::Error::WouldBlock) => Res::WouldBlock,
                Err(nb::Error::Other(e)) => conv_bytes(Err(e)),
            },
            7 => match $rd.next_nb::<File>() {
                Ok(None) => Res::End,
                Ok(Some(f)) => Res::File(Ok(from_complete(&f))),
                Err(nb::Error::WouldBlock) => Res::WouldBlock,
                Err(nb::Error::Other(e)) => conv_parsed(Err(e)),
            },
            8 => match $rd.next_nb::<Parser>() {
                Ok(None) => Res::End,
                Ok(Some(p)) => conv_parser::<sml_rs::util::Eof>(Ok(p)),
                Err(nb::Error::WouldBlock) => Res::WouldBlock,
                Err(nb::Error::Other(e)) => conv_parser(Err(e)),
            },
            9 => match $rd.read_nb::<DecodedBytes>() {
                Ok(b) => Res::Bytes(b.to_vec()),
                Err(nb::Error::WouldBlock) => Res::WouldBlock,
                Err(nb::Error::Other(e)) => conv_bytes(Err(e)),
            },
            10 => match $rd.read_nb::<File>() {
                Ok(f) => Res::File(Ok(from_complete(&f))),
                Err(nb::Error::WouldBlock) => Res::WouldBlock,
                Err(nb::Error::Other(e)) => conv_parsed(Err(e)),
            },
            _ => match $rd.read_nb::<Parser>() {
                Ok(p) => conv_parser::<sml_rs::util::Eof>(Ok(p)),
                Err(nb::Error::WouldBlock) => Res::WouldBlock,
                Err(nb::Error::Other(e)) => conv_parser(Err(e)),
            },
        }
    }};
}
macro_rules! drive {
    ($rd:expr, $choices:expr) => {{
        let mut v = vec![];
        let mut rd = $rd;
        for &c in $choices.iter() {
            v.push(one_call!(rd, c));
        }
        v
    }};
}
#[derive(Clone, Copy, PartialEq, Eq, Debug)]
pub enum Source {
    Slice,
    IterVal,
    IterRef,
    Cursor,
    OneByte,
    /// io::Read with varying chunk sizes
    Chunked,
    /// io::Read that reports Interrupted before every second read
    Interrupting,
}
pub const SOURCES: [Source; 7] = [Source::Slice, Source::IterVal, Source::IterRef, Source::Cursor, Source::OneByte, Source::Chunked, Source::Interrupting];
struct DriveVisit<'a> {
    s: &'a [u8],
    src: Source,
    choices: &'a [u8],
}
impl<'a> BufVisitor for DriveVisit<'a> {
    type Out = Vec<Res>;
    fn visit<B: Buffer + MkBuilder + Send + 'static>(self) -> Vec<Res> {
        let s = self.s;
        let ch = self.choices;
        let r = guarded(|| match self.src {
            Source::Slice => drive!(B::builder().from_slice(s), ch),
            Source::IterVal => drive!(B::builder().from_iterator(s.iter().copied()), ch),
            Source::IterRef => drive!(B::builder().from_iterator(s.iter()), ch),
            Source::Cursor => drive!(B::builder().from_reader(std::io::Cursor::new(s)), ch),
            Source::OneByte => drive!(B::builder().from_reader(OneByteRead { s, i: 0 }), ch),
            Source::Chunked => drive!(B::builder().from_reader(crate::fe::ChunkedRead { s, i: 0, pattern: &[40, 64, 3, 100], k: 0, intr: 0, calls: 0 }), ch),
            Source::Interrupting => drive!(B::builder().from_reader(crate::fe::ChunkedRead { s, i: 0, pattern: &[1, 7, 64], k: 0, intr: 2, calls: 0 }), ch),
        });
        r.unwrap_or_else(|p| vec![Res::Panic(p)])
    }
}
/// The embedded-hal serial source (it has no end of input: `EhSlice` answers with an error value
/// once its bytes are used up).
struct DriveEhVisit<'a> {
    s: &'a [u8],
    choices: &'a [u8],
}
impl<'a> BufVisitor for DriveEhVisit<'a> {
    type Out = Vec<Res>;
    fn visit<B: Buffer + MkBuilder + Send + 'static>(self) -> Vec<Res> {
        let s = self.s;
        let ch = self.choices;
        guarded(|| drive!(B::builder().from_eh_reader(crate::fe::EhSlice { s, i: 0 }), ch)).unwrap_or_else(|p| vec![Res::Panic(p)])
    }
}
/// For the embedded-hal source the end of the bytes shows as the source's error value with the
/// pending count: `IoErr(Other, n)` plays the role of `IoErr(Eof, n)`, and with nothing pending
/// that of the end signal.
fn eh_normalise(v: &[Res]) -> Vec<Res> {
    v.iter()
        .map(|r| match r {
            Res::Io(IoK::Other, n) => Res::Io(IoK::Eof, *n),
            Res::End => Res::Io(IoK::Eof, 0),
            x => x.clone(),
        })
        .collect()
}
fn drive_default(s: &[u8], src: Source, ch: &[u8]) -> Vec<Res> {
    guarded(|| match src {
        Source::Slice => drive!(SmlReader::from_slice(s), ch),
        Source::IterVal => drive!(SmlReader::from_iterator(s.iter().copied()), ch),
        Source::IterRef => drive!(SmlReader::from_iterator(s.iter()), ch),
        Source::Cursor | Source::OneByte => drive!(SmlReader::from_reader(std::io::Cursor::new(s)), ch),
        Source::Chunked => drive!(SmlReader::from_reader(crate::fe::ChunkedRead { s, i: 0, pattern: &[40, 64, 3, 100], k: 0, intr: 0, calls: 0 }), ch),
        Source::Interrupting => drive!(SmlReader::from_reader(crate::fe::ChunkedRead { s, i: 0, pattern: &[1, 7, 64], k: 0, intr: 2, calls: 0 }), ch),
    })
    .unwrap_or_else(|p| vec![Res::Panic(p)])
}

/// The payload pool: five valid files from the generator and one payload that is not SML.
fn c10_pool() -> Vec<(Vec<u8>, Option<RFile>)> {
    // payload bytes that exercise the transport layer inside real SML content: zeros directly in
    // front of an escaped 1b1b1b1b, a trailing 0x1b run, trailing zeros
    let e = |i: u32| REntry {
        obj_name: vec![1, 0, i as u8, 0, 0, 0x1b, 0x1b, 0x1b, 0x1b, 0, 0xff],
        status: Some(RStatus::S8(i as u8)),
        val_time: None,
        unit: Some(30),
        scaler: Some(-1),
        value: if i == 1 { RValue::Bytes(vec![0x1b, 0x1b, 0x1b, 0x1b, 0x1b, 0x1b, 0x1b, 0x1b, 0x1b, 0, 0, 0, 0, 0, 0x1b]) } else { RValue::I32(-(i as i32) * 1000) },
        sig: if i == 2 { Some(vec![0x01, 0x01, 0x01, 0x01, 0x1b, 0x1b]) } else { None },
    };
    let gl = |vals: Vec<REntry>| RMsg { tid: vec![0xaa, 0xbb], group: 0, abort: 0, body: RBody::GetList { client_id: None, server_id: vec![1, 2, 3], list_name: None, act_sensor_time: Some(RTime::SecIndex(99)), vals, list_sig: None, act_gateway_time: None } };
    let open = RMsg { tid: vec![1], group: 0, abort: 0, body: RBody::Open { codepage: None, client_id: None, req_file_id: vec![7], server_id: vec![1, 2, 3], ref_time: None, sml_version: None } };
    let close = RMsg { tid: vec![2], group: 0, abort: 0, body: RBody::Close { sig: None } };
    let files: Vec<RFile> = vec![vec![open.clone()], vec![close.clone()], vec![gl(vec![])], vec![gl(vec![e(1)])], vec![open, gl(vec![e(1), e(2)]), close]];
    let mut v: Vec<(Vec<u8>, Option<RFile>)> = files.into_iter().map(|f| (encode_file(&f, &[]).0, Some(f))).collect();
    v.push((vec![0x76, 0x05, 0x1b, 0x1b, 0x1b, 0x1b, 0x00], None));
    v
}
const NOISE: [&[u8]; 8] = [&[], &[0x55], &[0x00], &[0x1b], &[0x1b, 0x1b, 0x1b], &[0x1b, 0x1b, 0x1b, 0x1b], &[0x1b, 0x1b, 0x1b, 0x1b, 0x01], &[0x1b, 0x1b, 0x1b, 0x1b, 0x1a, 0x00]];

/// Spec-level expectation: the tile sequence of a stream built from noise and frames.
#[derive(Clone, Debug)]
enum Tile {
    Noise(usize),
    Frame(usize),
    TrailingNoise(usize),
}
fn expected_for(tiles: &[Tile], pool: &[(Vec<u8>, Option<RFile>)], choices: &[u8]) -> Vec<Res> {
    let mut out = vec![];
    let mut ti = 0usize;
    for &c in choices {
        let ty = c % 3;
        let is_next = matches!(c / 3, 0 | 2);
        if ti >= tiles.len() {
            out.push(if is_next { Res::End } else { Res::Io(IoK::Eof, 0) });
            continue;
        }
        let r = match &tiles[ti] {
            Tile::Noise(n) => Res::DecodeErr(DecodeErr::DiscardedBytes(*n)),
            Tile::TrailingNoise(n) => Res::Io(IoK::Eof, *n),
            Tile::Frame(pi) => {
                let (bytes, file) = &pool[*pi];
                match ty {
                    0 => Res::Bytes(bytes.clone()),
                    1 => match file {
                        Some(f) => Res::File(Ok(f.clone())),
                        None => Res::File(Err(String::new())), // some parse error; kind not prescribed
                    },
                    _ => match file {
                        Some(f) => Res::Events(f.clone(), None),
                        None => Res::Events(vec![], Some(String::new())),
                    },
                }
            }
        };
        ti += 1;
        out.push(r);
    }
    out
}
fn res_matches(want: &Res, got: &Res) -> bool {
    match (want, got) {
        (Res::File(Err(w)), Res::File(Err(_))) if w.is_empty() => true,
        (Res::Events(_, Some(w)), Res::Events(_, Some(_))) if w.is_empty() => true,
        (a, b) => a == b,
    }
}
/// Composition by hand: transport::decode, then complete::parse / streaming::Parser.
fn composed_for(stream: &[u8], choices: &[u8]) -> Vec<Res> {
    let dec = sml_rs::transport::decode(stream);
    let mut items: Vec<Result<Vec<u8>, DecodeErr>> = dec;
    // the trailing DiscardedBytes from finalize is what a reader reports as IoErr(Eof, n)
    let push = crate::fe::fe_push::<Vec<u8>>(stream);
    let trailing = push.finalize_n;
    if trailing.is_some() {
        items.pop();
    }
    let mut out = vec![];
    let mut i = 0;
    let mut trailing_reported = false;
    for &c in choices {
        let ty = c % 3;
        let is_next = matches!(c / 3, 0 | 2);
        if i < items.len() {
            out.push(match &items[i] {
                Err(e) => Res::DecodeErr(e.clone()),
                Ok(b) => match ty {
                    0 => Res::Bytes(b.clone()),
                    1 => Res::File(sml_rs::parser::complete::parse(b).map(|f| from_complete(&f)).map_err(|e| kind(&e))),
                    _ => conv_parser::<sml_rs::util::Eof>(Ok(Parser::new(b))),
                },
            });
            i += 1;
        } else if let (Some(n), false) = (trailing, trailing_reported) {
            trailing_reported = true;
            out.push(Res::Io(IoK::Eof, n));
        } else {
            out.push(if is_next { Res::End } else { Res::Io(IoK::Eof, 0) });
        }
    }
    out
}

fn c10_case(files: &[usize], noise: &[usize], choices: &[u8], out: &mut Vec<Viol>, counts: &mut Counts, all_sources: bool) {
    let pool = c10_pool();
    let mut stream = vec![];
    let mut tiles = vec![];
    for (i, &f) in files.iter().enumerate() {
        let g = NOISE[noise[i]];
        if !g.is_empty() {
            tiles.push(Tile::Noise(g.len()));
        }
        stream.extend_from_slice(g);
        // "each framed by the transport encoder": the real encoders, alternating (C07 shows that they
        // equal the reference encoder; if they do not, the reader's results show it here as well)
        let framed: Vec<u8> = if i % 2 == 0 {
            guarded(|| sml_rs::transport::encode::<Vec<u8>>(&pool[f].0)).ok().and_then(|r| r.ok()).unwrap_or_else(|| canon(&pool[f].0))
        } else {
            guarded(|| sml_rs::transport::encode_streaming(&pool[f].0).take(pool[f].0.len() * 2 + 64).collect::<Vec<u8>>()).unwrap_or_else(|_| canon(&pool[f].0))
        };
        stream.extend(framed);
        tiles.push(Tile::Frame(f));
    }
    let g = NOISE[noise[files.len()]];
    if !g.is_empty() {
        tiles.push(Tile::TrailingNoise(g.len()));
    }
    stream.extend_from_slice(g);
    let want = expected_for(&tiles, &pool, choices);
    let comp = composed_for(&stream, choices);
    let maxp = files.iter().map(|&f| pool[f].0.len()).max().unwrap_or(0);
    let key = format!("files={:?} noise={:?} choices={:?}", files, noise, choices);
    let case = J::obj()
        .set("engine", "e3")
        .set("check", "C10")
        .set("files", files.iter().map(|&x| x as u64).collect::<Vec<_>>())
        .set("noise", noise.iter().map(|&x| x as u64).collect::<Vec<_>>())
        .set("choices", choices.iter().map(|&x| x as u64).collect::<Vec<_>>());
    let mut check = |who: String, got: Vec<Res>, counts: &mut Counts| {
        counts.inc("reader runs");
        let ok = got.len() == want.len() && want.iter().zip(&got).all(|(w, g)| res_matches(w, g));
        if !ok {
            out.push(Viol {
                class: "C10 SmlReader does not yield exactly the transmitted files / noise counts / end of input".into(),
                key: format!("{} {}", key, who),
                what: format!("{}: expected [{}] got [{}]", who, want.iter().map(res_short).collect::<Vec<_>>().join(", "), got.iter().map(res_short).collect::<Vec<_>>().join(", ")),
                case: case.clone(),
                size: files.len() * 100 + noise.iter().sum::<usize>() + choices.iter().map(|&c| c as usize).sum::<usize>(),
            });
        } else if got != comp {
            out.push(Viol {
                class: "C10 SmlReader differs from composing transport::decode and the parser by hand".into(),
                key: format!("{} {}", key, who),
                what: format!("{}: composed [{}] reader [{}]", who, comp.iter().map(res_short).collect::<Vec<_>>().join(", "), got.iter().map(res_short).collect::<Vec<_>>().join(", ")),
                case: case.clone(),
                size: files.len() * 100,
            });
        }
    };
    let kinds = [BufKind::Vec, BufKind::Arr(256), BufKind::Arr(next_cap(maxp))];
    let sources: &[Source] = if all_sources { &SOURCES } else { &SOURCES[..1] };
    for &src in sources {
        for &k in &kinds {
            let got = crate::dec::with_buf(k, DriveVisit { s: &stream, src, choices }).unwrap_or_else(|| machinery("capacity not instantiated"));
            check(format!("{:?}/{}", src, k.name()), got, counts);
        }
        check(format!("{:?}/default 8 KiB", src), drive_default(&stream, src, choices), counts);
    }
    if all_sources {
        let want_n = eh_normalise(&want);
        let comp_n = eh_normalise(&comp);
        for &k in &kinds {
            let got = eh_normalise(&crate::dec::with_buf(k, DriveEhVisit { s: &stream, choices }).unwrap_or_else(|| machinery("capacity not instantiated")));
            counts.inc("reader runs");
            counts.inc("reader runs over the embedded-hal source");
            let ok = got.len() == want_n.len() && want_n.iter().zip(&got).all(|(w, g)| res_matches(w, g));
            if !ok || got != comp_n {
                out.push(Viol {
                    class: if !ok { "C10 SmlReader does not yield exactly the transmitted files / noise counts / end of input" } else { "C10 SmlReader differs from composing transport::decode and the parser by hand" }.into(),
                    key: format!("{} embedded-hal/{}", key, k.name()),
                    what: format!("embedded-hal serial source with {}: expected [{}] got [{}]", k.name(), want_n.iter().map(res_short).collect::<Vec<_>>().join(", "), got.iter().map(res_short).collect::<Vec<_>>().join(", ")),
                    case: case.clone(),
                    size: files.len() * 100 + noise.iter().sum::<usize>() + choices.iter().map(|&c| c as usize).sum::<usize>(),
                });
            }
        }
    }
}
fn next_cap(n: usize) -> usize {
    crate::dec::CAPS.iter().copied().find(|&c| c >= n).unwrap_or(8192)
}

/// One file of more than 2^16 bytes between two small ones (see run_c10).
fn c10_bigfile(pool: &[(Vec<u8>, Option<RFile>)]) -> (Vec<Viol>, u64) {
    // one file of more than 2^16 bytes (3300 messages, between 2^16 and 70 000 bytes) between two small ones, through every source
    // with a growable buffer and with a fixed buffer that is just large enough
        // as many messages as it takes to get between 2^16 + 64 and 70 000 bytes
        let mut big: RFile = vec![];
        let mut big_bytes = vec![];
        let mut i = 0u32;
        while big_bytes.len() < 66_500 {
            for _ in 0..50 {
                big.push(RMsg { tid: vec![(i % 251) as u8], group: 0, abort: 0, body: RBody::Close { sig: if i % 3 == 0 { Some(vec![i as u8, 0x1b]) } else { None } } });
                i += 1;
            }
            big_bytes = encode_file(&big, &[]).0;
        }
        if read_file(&big_bytes).as_ref() != Ok(&big) || big_bytes.len() <= 65536 + 64 || big_bytes.len() > 70000 {
            machinery("C10 big file: generator/reader disagree or the file is not longer than 2^16 bytes");
        }
        let small = &pool[1];
        let mut stream = vec![0x1b];
        stream.extend(canon(&small.0));
        stream.extend_from_slice(&[0x55, 0x1b, 0x1b]);
        stream.extend(canon(&big_bytes));
        stream.extend(canon(&small.0));
        let items: Vec<(Source, BufKind, u8)> = SOURCES.iter().flat_map(|&src| [BufKind::Vec, BufKind::Arr(70000)].into_iter().flat_map(move |k| (0..3u8).map(move |c| (src, k, c)))).collect();
        let parts = par_chunks(items.len() as u64, 1, |a, _| {
            let (src, k, c) = items[a as usize];
            let ch = vec![c; 6];
            let got = crate::dec::with_buf(k, DriveVisit { s: &stream, src, choices: &ch }).unwrap();
            let f = |bytes: &Vec<u8>, file: &RFile| match c {
                0 => Res::Bytes(bytes.clone()),
                1 => Res::File(Ok(file.clone())),
                _ => Res::Events(file.clone(), None),
            };
            let sf = small.1.clone().unwrap();
            let want = vec![Res::DecodeErr(DecodeErr::DiscardedBytes(1)), f(&small.0, &sf), Res::DecodeErr(DecodeErr::DiscardedBytes(3)), f(&big_bytes, &big), f(&small.0, &sf), Res::End];
            if got != want {
                Some(Viol {
                    class: "C10 SmlReader does not yield exactly the transmitted files / noise counts / end of input".into(),
                    key: format!("bigfile:{:?}:{}:{}", src, k.name(), c),
                    what: format!("file of {} bytes between two small files, {:?}/{} choice {}: expected [{}] got [{}]", big_bytes.len(), src, k.name(), c, want.iter().map(res_short).collect::<Vec<_>>().join(", "), got.iter().map(res_short).collect::<Vec<_>>().join(", ")),
                    case: J::obj().set("engine", "e3").set("check", "C10big"),
                    size: 1,
                })
            } else {
                None
            }
        });
        (parts.into_iter().flatten().collect::<Vec<Viol>>(), items.len() as u64)
}

/// A file that is one byte too long for the static buffer, between two files that fit: the reader
/// must report OutOfMemory for it and deliver its neighbours untouched (every SML file ends in a
/// zero byte, so the overflow happens when the withheld zero is flushed at the end sequence).
fn c10_too_small(pool: &[(Vec<u8>, Option<RFile>)]) -> (Vec<Viol>, u64) {
    let mut out = vec![];
    let mut n = 0u64;
    for (zi, small_i) in [(4usize, 1usize), (3, 1), (0, 1), (3, 2)] {
        let z = &pool[zi];
        let small = &pool[small_i];
        let cap = z.0.len() - 1;
        if !crate::dec::has_cap(cap) || small.0.len() > cap {
            continue;
        }
        let mut stream = canon(&small.0);
        stream.extend(canon(&z.0));
        stream.extend(canon(&small.0));
        stream.extend_from_slice(&[0x55]);
        stream.extend(canon(&small.0));
        for &src in SOURCES.iter() {
            for c in 0..3u8 {
                let ch = vec![c; 6];
                let got = crate::dec::with_buf(BufKind::Arr(cap), DriveVisit { s: &stream, src, choices: &ch }).unwrap();
                n += 1;
                let f = |p: &(Vec<u8>, Option<RFile>)| match c {
                    0 => Res::Bytes(p.0.clone()),
                    1 => Res::File(Ok(p.1.clone().unwrap())),
                    _ => Res::Events(p.1.clone().unwrap(), None),
                };
                let want = vec![f(small), Res::DecodeErr(DecodeErr::OutOfMemory), f(small), Res::DecodeErr(DecodeErr::DiscardedBytes(1)), f(small), Res::End];
                if got != want {
                    out.push(Viol {
                        class: "C10 SmlReader does not yield exactly the transmitted files / noise counts / end of input".into(),
                        key: format!("toosmall:{}:{:?}:{}", zi, src, c),
                        what: format!("file of {} bytes with ArrayBuf<{}> between files that fit, {:?} choice {}: expected [{}] got [{}]", z.0.len(), cap, src, c, want.iter().map(res_short).collect::<Vec<_>>().join(", "), got.iter().map(res_short).collect::<Vec<_>>().join(", ")),
                        case: J::obj().set("engine", "e3").set("check", "C10small"),
                        size: 2,
                    });
                }
            }
        }
    }
    (out, n)
}

pub fn run_c10(tier: Tier) -> ! {
    let ctx = Ctx::new("C10", tier);
    let pool = c10_pool();
    // binding: the generator's files are what complete::parse reads from the generated bytes
    for (b, f) in &pool {
        if let Some(f) = f {
            if read_file(b).as_ref() != Ok(f) {
                machinery("C10 pool: generator/reader disagree");
            }
        }
    }
    // the `SmlParse<&[u8]>` adapters used when the caller has the payload already: identical to
    // calling the parsers directly (pool payloads, their truncations and single-byte corruptions)
    let mut adapter_viols = vec![];
    let mut adapter_runs = 0u64;
    for (b, _) in &pool {
        let mut inputs: Vec<Vec<u8>> = vec![b.clone()];
        for k in 0..b.len() {
            inputs.push(b[..k].to_vec());
            let mut x = b.clone();
            x[k] ^= 0x21;
            inputs.push(x);
        }
        for x in inputs {
            use sml_rs::SmlParse;
            adapter_runs += 1;
            let direct_file = sml_rs::parser::complete::parse(&x).map(|f| from_complete(&f)).map_err(|e| kind(&e));
            let via_file = <File as SmlParse<&[u8]>>::parse_from(&x).map(|f| from_complete(&f)).map_err(|e| kind(&e));
            let direct_ev = conv_parser::<sml_rs::util::Eof>(Ok(Parser::new(&x)));
            let via_ev = match <Parser as SmlParse<&[u8]>>::parse_from(&x) {
                Ok(p) => conv_parser::<sml_rs::util::Eof>(Ok(p)),
                Err(_) => Res::End,
            };
            let via_bytes = <DecodedBytes as SmlParse<&[u8]>>::parse_from(&x).map(|b| b.to_vec()).ok();
            if direct_file != via_file || direct_ev != via_ev || via_bytes.as_deref() != Some(&x[..]) {
                adapter_viols.push(Viol {
                    class: "C10 SmlParse::parse_from(&[u8]) differs from calling the parser directly".into(),
                    key: format!("adapter:{}", hex(&x[..x.len().min(40)])),
                    what: format!("input {}: File {:?} vs {:?}", hex(&x[..x.len().min(60)]), via_file.as_ref().map(|f| f.len()), direct_file.as_ref().map(|f| f.len())),
                    case: J::obj().set("engine", "e3").set("check", "C10adapter").set("input", hex(&x)),
                    size: x.len(),
                });
            }
        }
    }
    let kmax = tier.pick(2usize, 3);
    let np = pool.len();
    let nn = NOISE.len();
    // work items: (file sequence, noise placement, choice mode)
    let mut items: Vec<(Vec<usize>, Vec<usize>, u8)> = vec![];
    for k in 0..=kmax {
        let nseq = np.pow(k as u32);
        for si in 0..nseq {
            let mut fs = vec![];
            let mut x = si;
            for _ in 0..k {
                fs.push(x % np);
                x /= np;
            }
            let nplace = nn.pow(k as u32 + 1);
            for ni in 0..nplace {
                let mut ns = vec![];
                let mut y = ni;
                for _ in 0..=k {
                    ns.push(y % nn);
                    y /= nn;
                }
                // full choice tree for three noise placements per file sequence, uniform choices for all
                let full_tree = ni == 0 || ni == nplace / 2 + 1 || ni == nplace - 1;
                if k == 3 && !(ni % 5 == 0) {
                    continue; // three files: every 5th noise placement (the count is reported)
                }
                items.push((fs.clone(), ns, if full_tree && k <= 2 { 1 } else { 0 }));
            }
        }
    }
    let parts = par_chunks(items.len() as u64, 1, |a, b| {
        let mut t = Tally::new();
        let mut c = Counts::default();
        let mut out = vec![];
        for i in a..b {
            let (fs, ns, mode) = &items[i as usize];
            let ncalls = fs.len() * 2 + 3;
            if *mode == 1 {
                // every per-call choice among the 6 blocking variants for the first k+2 calls
                let depth = fs.len() + 2;
                let total = 6usize.pow(depth as u32);
                for ci in 0..total {
                    let mut ch = vec![];
                    let mut x = ci;
                    for _ in 0..depth {
                        ch.push((x % 6) as u8);
                        x /= 6;
                    }
                    while ch.len() < ncalls {
                        ch.push(0);
                    }
                    c.inc("choice vectors of the full tree");
                    c10_case(fs, ns, &ch, &mut out, &mut c, ci % 7 == 0);
                }
            }
            for u in 0..NCHOICE as u8 {
                let ch = vec![u; ncalls];
                c10_case(fs, ns, &ch, &mut out, &mut c, true);
            }
            // alternating target types
            let ch: Vec<u8> = (0..ncalls).map(|j| ((j * 5 + 1) % NCHOICE) as u8).collect();
            c10_case(fs, ns, &ch, &mut out, &mut c, true);
            c.inc("stream layouts (file sequence x noise placement)");
            for v in out.drain(..) {
                t.add(v);
            }
        }
        (t, c)
    });
    let mut tally = Tally::new();
    let mut counts = Counts::default();
    for (t, c) in parts {
        tally.merge(t);
        counts.merge(&c);
    }
    for v in adapter_viols {
        tally.add(v);
    }
    counts.addn("SmlParse::parse_from(&[u8]) comparisons", adapter_runs);
    {
        let (vs, n) = c10_too_small(&pool);
        for v in vs {
            tally.add(v);
        }
        counts.addn("reader runs", n);
        counts.addn("runs with a file one byte too long for the static buffer", n);
    }
    {
        let (vs, n) = c10_bigfile(&pool);
        for v in vs {
            tally.add(v);
        }
        counts.addn("reader runs", n);
        counts.addn("runs over a file of more than 2^16 bytes", n);
    }
    ctx.log(&format!("outcomes {:?}", counts.0));
    counts.require(&["reader runs", "choice vectors of the full tree", "runs with a file one byte too long for the static buffer", "runs over a file of more than 2^16 bytes"]);
    let n = counts.get("reader runs");
    let cov = J::obj()
        .set("states", counts.get("stream layouts (file sequence x noise placement)"))
        .set("transitions", n)
        .set("traces_validated_against_impl", n)
        .set("evaluations", n)
        .set("distinct_nontrivial", counts.get("stream layouts (file sequence x noise placement)"))
        .set("rule", "file sequences of length <= k over a pool of 5 generated SML files + 1 non-SML payload, framed by the reference encoder, with every placement of 8 noise strings (incl. noise ending in 0x1b and partial start / end sequences) before, between and after; 7 sources (slice, iterator by value / by reference, io::Cursor, one-byte io::Read, chunked io::Read, io::Read interrupted before every second read) x {Vec, ArrayBuf<256>, ArrayBuf<smallest instantiated capacity >= largest payload>, default 8 KiB}; per-call choice of DecodedBytes / File / Parser x read / next (/ *_nb): uniform and alternating for every layout, the full 6^(k+2) tree for three layouts per file sequence; oracle = the abstract files that were put in, and composition of transport::decode with the parsers by hand")
        .set("samples", vec!["files [open, getlist(2)] noise [1b, 1b1b1b1b01, 55] choices [next File, read Parser, next Bytes, ...]"])
        .set("max_files", kmax)
        .set("outcomes", counts.to_json())
        .set("exhaustive", true);
    finish(&ctx, cov, assumptions(), tally, &crate::replay_case)
}

// ------------------------------------------------------------------ replay
pub fn replay(case: &J) -> Vec<Viol> {
    let mut out = vec![];
    let mut c = Counts::default();
    match case.get("check").and_then(|x| x.as_str()) {
        Some("C15") => {
            if let Some(p) = case.get("path").and_then(|p| p.as_str()).and_then(parse_path) {
                c15_path(&p, &mut out, &mut c);
            } else if let Some(s) = case.get("stream").and_then(|p| p.as_str()).and_then(unhex) {
                c15_stream(&s, "stream", case.clone(), s.len(), &mut out, &mut c);
            }
        }
        Some("C11") => {
            let s = case.get("stream").and_then(|p| p.as_str()).and_then(unhex).unwrap_or_default();
            let drv = Driver::ALL.iter().copied().find(|d| Some(d.token()) == case.get("driver").and_then(|d| d.as_str())).unwrap_or(Driver::Next);
            let sched: Vec<(usize, Fault)> = case
                .get("schedule")
                .and_then(|p| p.as_str())
                .unwrap_or("")
                .split(',')
                .filter_map(|t| {
                    let (c, f) = t.split_once(':')?;
                    Some((c.parse().ok()?, Fault::parse(f)?))
                })
                .collect();
            let eh = case.get("source").and_then(|x| x.as_str()) == Some("embedded-hal");
            c11_case(&s, &sched, drv, eh, &mut out, &mut c);
        }
        Some("C11std") => {
            let key = case.get("key").and_then(|x| x.as_str()).unwrap_or("").to_string();
            out.extend(stdonly_findings(&mut c).into_iter().filter(|v| v.key == format!("stdonly:{}", key)));
        }
        Some("C10adapter") => {
            use sml_rs::SmlParse;
            let x = case.get("input").and_then(|p| p.as_str()).and_then(unhex).unwrap_or_default();
            let direct_file = sml_rs::parser::complete::parse(&x).map(|f| from_complete(&f)).map_err(|e| kind(&e));
            let via_file = <File as SmlParse<&[u8]>>::parse_from(&x).map(|f| from_complete(&f)).map_err(|e| kind(&e));
            let direct_ev = conv_parser::<sml_rs::util::Eof>(Ok(Parser::new(&x)));
            let via_ev = match <Parser as SmlParse<&[u8]>>::parse_from(&x) {
                Ok(p) => conv_parser::<sml_rs::util::Eof>(Ok(p)),
                Err(_) => Res::End,
            };
            let via_bytes = <DecodedBytes as SmlParse<&[u8]>>::parse_from(&x).map(|b| b.to_vec()).ok();
            if direct_file != via_file || direct_ev != via_ev || via_bytes.as_deref() != Some(&x[..]) {
                out.push(Viol { class: "C10 SmlParse::parse_from(&[u8]) differs from calling the parser directly".into(), key: "adapter".into(), what: String::new(), case: case.clone(), size: x.len() });
            }
        }
        Some("C10small") => {
            out.extend(c10_too_small(&c10_pool()).0);
        }
        Some("C10big") => {
            out.extend(c10_bigfile(&c10_pool()).0);
        }
        Some("C10") => {
            let arr = |k: &str| -> Vec<usize> { case.get(k).and_then(|a| a.as_arr()).map(|a| a.iter().filter_map(|x| x.as_i()).map(|x| x as usize).collect()).unwrap_or_default() };
            let ch: Vec<u8> = arr("choices").into_iter().map(|x| x as u8).collect();
            c10_case(&arr("files"), &arr("noise"), &ch, &mut out, &mut c, true);
        }
        _ => {}
    }
    out
}
