//! Violations, known findings, replay files, evidence files and exit codes.
use crate::json::J;
use std::collections::BTreeMap;
use std::path::PathBuf;
use std::time::Instant;

pub const EXIT_OK: i32 = 0;
pub const EXIT_VIOLATION: i32 = 1;
pub const EXIT_MACHINERY: i32 = 2;

#[derive(Clone, Copy, PartialEq, Eq, Debug)]
pub enum Tier {
    Quick,
    Thorough,
}
impl Tier {
    pub fn name(self) -> &'static str {
        match self {
            Tier::Quick => "quick",
            Tier::Thorough => "thorough",
        }
    }
    pub fn pick<T>(self, q: T, t: T) -> T {
        match self {
            Tier::Quick => q,
            Tier::Thorough => t,
        }
    }
}

pub fn verif_dir() -> PathBuf {
    PathBuf::from(std::env::var("VERIF_DIR").unwrap_or_else(|_| "/verif".into()))
}
pub fn repo_dir() -> PathBuf {
    PathBuf::from(std::env::var("VERIF_REPO").unwrap_or_else(|_| "/repo".into()))
}

/// One concrete violating case.
#[derive(Clone, Debug)]
pub struct Viol {
    /// short class name, e.g. "M-start: start sequence not detected"
    pub class: String,
    /// canonical key of the case (hex input / op list); known findings match on it
    pub key: String,
    /// human-readable expected vs. observed
    pub what: String,
    /// replayable case (fed back to the engine's `replay`)
    pub case: J,
    /// size used to order cases (smallest first)
    pub size: usize,
}

const KEEP_PER_CLASS: usize = 12;

/// Aggregates violations by class, keeping the smallest examples of each.
#[derive(Default, Clone, Debug)]
pub struct Tally {
    pub classes: BTreeMap<String, (u64, Vec<Viol>)>,
}
impl Tally {
    pub fn new() -> Self {
        Self::default()
    }
    pub fn add(&mut self, v: Viol) {
        let e = self.classes.entry(v.class.clone()).or_insert((0, vec![]));
        e.0 += 1;
        Self::keep(&mut e.1, v);
    }
    fn keep(list: &mut Vec<Viol>, v: Viol) {
        if list.iter().any(|x| x.key == v.key) {
            return;
        }
        if list.len() < KEEP_PER_CLASS {
            list.push(v);
        } else {
            let (wi, worst) = list
                .iter()
                .enumerate()
                .max_by(|a, b| (a.1.size, &a.1.key).cmp(&(b.1.size, &b.1.key)))
                .unwrap();
            if (v.size, &v.key) < (worst.size, &worst.key) {
                list[wi] = v;
            }
        }
    }
    pub fn merge(&mut self, other: Tally) {
        for (k, (n, vs)) in other.classes {
            let e = self.classes.entry(k).or_insert((0, vec![]));
            e.0 += n;
            for v in vs {
                Self::keep(&mut e.1, v);
            }
        }
    }
    pub fn total(&self) -> u64 {
        self.classes.values().map(|x| x.0).sum()
    }
    pub fn is_empty(&self) -> bool {
        self.classes.is_empty()
    }
}

pub struct KnownFinding {
    pub property: String,
    pub key: String,
    pub text: String,
}
pub fn load_known() -> Vec<KnownFinding> {
    let p = verif_dir().join("known_findings.txt");
    let mut v = vec![];
    if let Ok(s) = std::fs::read_to_string(p) {
        for l in s.lines() {
            let l = l.trim();
            if let Some(rest) = l.strip_prefix("known:") {
                let mut prop = String::new();
                let mut key = String::new();
                let mut text = vec![];
                for tok in rest.split_whitespace() {
                    if let Some(p) = tok.strip_prefix("property=") {
                        prop = p.to_string();
                    } else if let Some(k) = tok.strip_prefix("key=") {
                        key = k.to_string();
                    } else {
                        text.push(tok);
                    }
                }
                v.push(KnownFinding { property: prop, key, text: text.join(" ") });
            }
        }
    }
    v
}

pub struct Ctx {
    pub prop: String,
    pub tier: Tier,
    pub seed: u64,
    pub t0: Instant,
    pub level: &'static str,
}
impl Ctx {
    pub fn new(prop: &str, tier: Tier) -> Ctx {
        let seed = std::env::var("VERIF_SEED").ok().and_then(|s| s.parse::<u64>().ok()).unwrap_or(0);
        Ctx { prop: prop.to_string(), tier, seed, t0: Instant::now(), level: "model_checking" }
    }
    pub fn log(&self, msg: &str) {
        eprintln!("[{} {} {:7.2}s] {}", self.prop, self.tier.name(), self.t0.elapsed().as_secs_f64(), msg);
    }
}

pub fn machinery(msg: &str) -> ! {
    eprintln!("MACHINERY-ERROR: {}", msg);
    println!("MACHINERY-ERROR: {}", msg);
    std::process::exit(EXIT_MACHINERY)
}

/// Final step of every check: triage violations against the known-findings file,
/// confirm each by replaying it twice, write replay files and the evidence file,
/// print the interface lines, exit.
pub fn finish(
    ctx: &Ctx,
    mut coverage: J,
    assumptions: Vec<String>,
    tally: Tally,
    replay: &dyn Fn(&J) -> Vec<Viol>,
) -> ! {
    let known = load_known();
    let mut unlisted = 0usize;
    let mut listed = 0usize;
    let mut lines = vec![];
    let mut classes_j = vec![];
    let rdir = verif_dir().join("replays");
    let _ = std::fs::create_dir_all(&rdir);
    for (class, (count, vs)) in &tally.classes {
        classes_j.push(J::obj().set("class", class).set("count", *count));
        let mut vs = vs.clone();
        vs.sort_by(|a, b| (a.size, &a.key).cmp(&(b.size, &b.key)));
        let mut reported_in_class = 0;
        for v in vs {
            if let Some(k) = known.iter().find(|k| k.property == ctx.prop && k.key == v.key) {
                lines.push(format!("KNOWN-FINDING: property={} {} [key={}]", ctx.prop, k.text, k.key));
                listed += 1;
                continue;
            }
            if reported_in_class >= 3 {
                // further examples of the same class add nothing; the count is in the evidence
                unlisted += 1;
                continue;
            }
            // confirm by replaying twice, without the explorer
            let r1 = replay(&v.case);
            let r2 = replay(&v.case);
            let k1: Vec<&String> = r1.iter().map(|x| &x.class).collect();
            let k2: Vec<&String> = r2.iter().map(|x| &x.class).collect();
            if k1 != k2 {
                machinery(&format!("replay of {} is not deterministic: {:?} vs {:?}", v.key, k1, k2));
            }
            if !r1.iter().any(|x| x.class == v.class) {
                machinery(&format!(
                    "violation '{}' key={} found by exploration does not reproduce on replay (got {:?})",
                    v.class, v.key, k1
                ));
            }
            let fname = format!("{}-{:016x}.json", ctx.prop, fnv(&format!("{}|{}", v.class, v.key)));
            let path = rdir.join(&fname);
            let file = J::obj()
                .set("property", &ctx.prop)
                .set("class", &v.class)
                .set("key", &v.key)
                .set("what", &v.what)
                .set("case", v.case.clone());
            if let Err(e) = std::fs::write(&path, file.pretty()) {
                machinery(&format!("cannot write replay file {}: {}", path.display(), e));
            }
            eprintln!("  violation [{}] {} :: {}", v.class, v.key, v.what);
            lines.push(format!("VIOLATION property={} replay={}", ctx.prop, path.display()));
            unlisted += 1;
            reported_in_class += 1;
        }
    }
    coverage.put("violation_classes", J::Arr(classes_j));
    let ev = J::obj()
        .set("property_id", &ctx.prop)
        .set("tier", ctx.tier.name())
        .set("seed", ctx.seed)
        .set("level", ctx.level)
        .set("coverage", coverage)
        .set("assumptions", assumptions)
        .set("wall_s", ctx.t0.elapsed().as_secs_f64())
        .set("violations", unlisted)
        .set("known_findings_observed", listed);
    let edir = verif_dir().join("evidence");
    let _ = std::fs::create_dir_all(&edir);
    let epath = edir.join(format!("{}.json", ctx.prop));
    if let Err(e) = std::fs::write(&epath, ev.pretty()) {
        machinery(&format!("cannot write evidence {}: {}", epath.display(), e));
    }
    for l in &lines {
        println!("{}", l);
    }
    if unlisted > 0 {
        println!("RESULT property={} tier={} violations={} (exit 1)", ctx.prop, ctx.tier.name(), unlisted);
        std::process::exit(EXIT_VIOLATION);
    }
    println!(
        "RESULT property={} tier={} held on everything explored; evidence={} wall={:.1}s",
        ctx.prop,
        ctx.tier.name(),
        epath.display(),
        ctx.t0.elapsed().as_secs_f64()
    );
    std::process::exit(EXIT_OK)
}

pub fn fnv(s: &str) -> u64 {
    let mut h: u64 = 0xcbf29ce484222325;
    for b in s.bytes() {
        h ^= b as u64;
        h = h.wrapping_mul(0x100000001b3);
    }
    h
}

/// Counter map for outcome classes (vacuity guard and evidence).
#[derive(Default, Clone, Debug)]
pub struct Counts(pub BTreeMap<String, u64>);
impl Counts {
    pub fn inc(&mut self, k: &str) {
        self.addn(k, 1);
    }
    pub fn addn(&mut self, k: &str, n: u64) {
        if let Some(v) = self.0.get_mut(k) {
            *v += n;
        } else {
            self.0.insert(k.to_string(), n);
        }
    }
    pub fn get(&self, k: &str) -> u64 {
        self.0.get(k).copied().unwrap_or(0)
    }
    pub fn merge(&mut self, o: &Counts) {
        for (k, v) in &o.0 {
            self.addn(k, *v);
        }
    }
    pub fn to_json(&self) -> J {
        J::Obj(self.0.iter().map(|(k, v)| (k.clone(), J::Int(*v as i128))).collect())
    }
    /// vacuity guard: every listed class must have been observed at least once
    pub fn require(&self, keys: &[&str]) {
        for k in keys {
            if self.get(k) == 0 {
                machinery(&format!("vacuity guard: outcome class '{}' was never observed in this run", k));
            }
        }
    }
}
