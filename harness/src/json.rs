//! Minimal JSON value, writer and parser (no external crates available offline
//! beyond what the repository itself locks, and none is needed).
use std::collections::BTreeMap;
use std::fmt::Write;

#[derive(Debug, Clone, PartialEq)]
pub enum J {
    Null,
    Bool(bool),
    Int(i128),
    Num(f64),
    Str(String),
    Arr(Vec<J>),
    Obj(Vec<(String, J)>),
}

impl J {
    pub fn obj() -> J {
        J::Obj(vec![])
    }
    pub fn set(mut self, k: &str, v: impl Into<J>) -> J {
        self.put(k, v);
        self
    }
    pub fn put(&mut self, k: &str, v: impl Into<J>) {
        if let J::Obj(o) = self {
            let v = v.into();
            if let Some(e) = o.iter_mut().find(|(kk, _)| kk == k) {
                e.1 = v;
            } else {
                o.push((k.to_string(), v));
            }
        }
    }
    pub fn get(&self, k: &str) -> Option<&J> {
        match self {
            J::Obj(o) => o.iter().find(|(kk, _)| kk == k).map(|(_, v)| v),
            _ => None,
        }
    }
    pub fn as_str(&self) -> Option<&str> {
        match self {
            J::Str(s) => Some(s),
            _ => None,
        }
    }
    pub fn as_i(&self) -> Option<i128> {
        match self {
            J::Int(i) => Some(*i),
            _ => None,
        }
    }
    pub fn as_arr(&self) -> Option<&[J]> {
        match self {
            J::Arr(a) => Some(a),
            _ => None,
        }
    }
    pub fn pretty(&self) -> String {
        let mut s = String::new();
        self.write(&mut s, 0, true);
        s.push('\n');
        s
    }
    pub fn compact(&self) -> String {
        let mut s = String::new();
        self.write(&mut s, 0, false);
        s
    }
    fn write(&self, out: &mut String, ind: usize, pretty: bool) {
        match self {
            J::Null => out.push_str("null"),
            J::Bool(b) => out.push_str(if *b { "true" } else { "false" }),
            J::Int(i) => {
                let _ = write!(out, "{}", i);
            }
            J::Num(f) => {
                if f.is_finite() {
                    let _ = write!(out, "{:.3}", f);
                } else {
                    out.push_str("null");
                }
            }
            J::Str(s) => esc(s, out),
            J::Arr(a) => {
                // arrays of scalars stay on one line
                let scalar = a.iter().all(|x| !matches!(x, J::Arr(_) | J::Obj(_)));
                out.push('[');
                for (i, x) in a.iter().enumerate() {
                    if i > 0 {
                        out.push(',');
                        if scalar && pretty {
                            out.push(' ');
                        }
                    }
                    if pretty && !scalar {
                        out.push('\n');
                        out.push_str(&" ".repeat(ind + 1));
                    }
                    x.write(out, ind + 1, pretty);
                }
                if pretty && !scalar && !a.is_empty() {
                    out.push('\n');
                    out.push_str(&" ".repeat(ind));
                }
                out.push(']');
            }
            J::Obj(o) => {
                out.push('{');
                for (i, (k, v)) in o.iter().enumerate() {
                    if i > 0 {
                        out.push(',');
                    }
                    if pretty {
                        out.push('\n');
                        out.push_str(&" ".repeat(ind + 1));
                    }
                    esc(k, out);
                    out.push(':');
                    if pretty {
                        out.push(' ');
                    }
                    v.write(out, ind + 1, pretty);
                }
                if pretty && !o.is_empty() {
                    out.push('\n');
                    out.push_str(&" ".repeat(ind));
                }
                out.push('}');
            }
        }
    }
}

fn esc(s: &str, out: &mut String) {
    out.push('"');
    for c in s.chars() {
        match c {
            '"' => out.push_str("\\\""),
            '\\' => out.push_str("\\\\"),
            '\n' => out.push_str("\\n"),
            '\r' => out.push_str("\\r"),
            '\t' => out.push_str("\\t"),
            c if (c as u32) < 0x20 => {
                let _ = write!(out, "\\u{:04x}", c as u32);
            }
            c => out.push(c),
        }
    }
    out.push('"');
}

impl From<bool> for J {
    fn from(v: bool) -> J {
        J::Bool(v)
    }
}
impl From<&str> for J {
    fn from(v: &str) -> J {
        J::Str(v.to_string())
    }
}
impl From<String> for J {
    fn from(v: String) -> J {
        J::Str(v)
    }
}
impl From<&String> for J {
    fn from(v: &String) -> J {
        J::Str(v.clone())
    }
}
impl From<f64> for J {
    fn from(v: f64) -> J {
        J::Num(v)
    }
}
macro_rules! ji {
    ($($t:ty),*) => { $(impl From<$t> for J { fn from(v: $t) -> J { J::Int(v as i128) } })* };
}
ji!(u8, u16, u32, u64, usize, i32, i64, i128, u128);
impl<T: Into<J>> From<Vec<T>> for J {
    fn from(v: Vec<T>) -> J {
        J::Arr(v.into_iter().map(Into::into).collect())
    }
}
impl<T: Into<J> + Clone> From<&[T]> for J {
    fn from(v: &[T]) -> J {
        J::Arr(v.iter().cloned().map(Into::into).collect())
    }
}
impl<V: Into<J>> From<BTreeMap<String, V>> for J {
    fn from(v: BTreeMap<String, V>) -> J {
        J::Obj(v.into_iter().map(|(k, v)| (k, v.into())).collect())
    }
}

pub fn hex(b: &[u8]) -> String {
    let mut s = String::with_capacity(b.len() * 2);
    for x in b {
        let _ = write!(s, "{:02x}", x);
    }
    s
}
pub fn unhex(s: &str) -> Option<Vec<u8>> {
    let s: Vec<u8> = s.bytes().filter(|c| !c.is_ascii_whitespace()).collect();
    if s.len() % 2 != 0 {
        return None;
    }
    let mut v = Vec::with_capacity(s.len() / 2);
    for c in s.chunks(2) {
        let h = (c[0] as char).to_digit(16)?;
        let l = (c[1] as char).to_digit(16)?;
        v.push((h * 16 + l) as u8);
    }
    Some(v)
}

// ---------------------------------------------------------------- parser
pub fn parse(s: &str) -> Result<J, String> {
    let b = s.as_bytes();
    let mut i = 0;
    let v = pv(b, &mut i)?;
    ws(b, &mut i);
    if i != b.len() {
        return Err(format!("trailing data at {}", i));
    }
    Ok(v)
}
fn ws(b: &[u8], i: &mut usize) {
    while *i < b.len() && b[*i].is_ascii_whitespace() {
        *i += 1;
    }
}
fn pv(b: &[u8], i: &mut usize) -> Result<J, String> {
    ws(b, i);
    if *i >= b.len() {
        return Err("eof".into());
    }
    match b[*i] {
        b'{' => {
            *i += 1;
            let mut o = vec![];
            loop {
                ws(b, i);
                if *i < b.len() && b[*i] == b'}' {
                    *i += 1;
                    break;
                }
                let k = match pv(b, i)? {
                    J::Str(s) => s,
                    _ => return Err("key".into()),
                };
                ws(b, i);
                if *i >= b.len() || b[*i] != b':' {
                    return Err("colon".into());
                }
                *i += 1;
                let v = pv(b, i)?;
                o.push((k, v));
                ws(b, i);
                if *i < b.len() && b[*i] == b',' {
                    *i += 1;
                }
            }
            Ok(J::Obj(o))
        }
        b'[' => {
            *i += 1;
            let mut a = vec![];
            loop {
                ws(b, i);
                if *i < b.len() && b[*i] == b']' {
                    *i += 1;
                    break;
                }
                a.push(pv(b, i)?);
                ws(b, i);
                if *i < b.len() && b[*i] == b',' {
                    *i += 1;
                }
            }
            Ok(J::Arr(a))
        }
        b'"' => {
            *i += 1;
            let mut s = Vec::new();
            while *i < b.len() && b[*i] != b'"' {
                if b[*i] == b'\\' {
                    *i += 1;
                    if *i >= b.len() {
                        return Err("esc".into());
                    }
                    match b[*i] {
                        b'n' => s.push(b'\n'),
                        b't' => s.push(b'\t'),
                        b'r' => s.push(b'\r'),
                        b'u' => {
                            let h = std::str::from_utf8(&b[*i + 1..*i + 5]).map_err(|e| e.to_string())?;
                            let c = u32::from_str_radix(h, 16).map_err(|e| e.to_string())?;
                            let mut buf = [0u8; 4];
                            s.extend_from_slice(char::from_u32(c).unwrap_or('?').encode_utf8(&mut buf).as_bytes());
                            *i += 4;
                        }
                        c => s.push(c),
                    }
                } else {
                    s.push(b[*i]);
                }
                *i += 1;
            }
            *i += 1;
            Ok(J::Str(String::from_utf8_lossy(&s).into_owned()))
        }
        b't' => {
            *i += 4;
            Ok(J::Bool(true))
        }
        b'f' => {
            *i += 5;
            Ok(J::Bool(false))
        }
        b'n' => {
            *i += 4;
            Ok(J::Null)
        }
        _ => {
            let st = *i;
            while *i < b.len() && (b[*i].is_ascii_digit() || matches!(b[*i], b'-' | b'+' | b'.' | b'e' | b'E')) {
                *i += 1;
            }
            let t = std::str::from_utf8(&b[st..*i]).unwrap();
            if let Ok(v) = t.parse::<i128>() {
                Ok(J::Int(v))
            } else {
                t.parse::<f64>().map(J::Num).map_err(|e| format!("num {:?}: {}", t, e))
            }
        }
    }
}
