//! The receiver-side monitor (DESIGN §5): an implementation-independent account
//! of what properties C01/C02/C08/C14/C17 define for a byte stream, evaluated
//! against each result of the real decoder. It never prescribes error kinds for
//! malformed frames.
use crate::dec::Out;
use crate::refm::{canon, kmp, recognise, START};
use sml_rs::transport::DecodeErr;

#[derive(Clone, PartialEq, Eq, Hash, Debug)]
pub struct Mon {
    pub in_frame: bool,
    /// bytes consumed since the last boundary
    pub unacc: usize,
    /// KMP state of the start-sequence scanner (idle only)
    pub scan: u8,
    /// raw bytes since (and including) the start sequence (in frame only)
    pub frame: Vec<u8>,
    /// capacity of the decoder's buffer (None = growable); constant
    pub cap: Option<usize>,
}

/// What happened at this step, for statistics and boundary detection.
#[derive(Clone, Copy, PartialEq, Eq, Debug)]
pub enum StepKind {
    Quiet,
    Start,
    Delivered,
    Restart,
    Rejected,
    Finalized,
    Reset,
}

pub type Finding = (&'static str, String);

/// Findings after which monitor and decoder no longer agree on where they are (or the decoder
/// object is in an undefined state): exploration cannot meaningfully continue past them.
/// After every other finding (a wrong count, a non-canonical frame delivered, a decoder that is
/// not fresh after a start sequence) both sides are still in step, and a check that does not
/// report that class keeps exploring.
pub fn is_desync(class: &str) -> bool {
    class.contains("panic")
        || class.starts_with("C08 M-start: start sequence after noise not reported/detected")
        || class.starts_with("C08 M-start: a start sequence is reported inside noise")
        || class.starts_with("C17 M-tile: output while idle")
        || class.starts_with("C02 M-sound: payload reported outside any frame")
        || class.starts_with("C17 M-tile: in-frame discarded report")
}

impl Mon {
    pub fn new(cap: Option<usize>) -> Mon {
        Mon { in_frame: false, unacc: 0, scan: 0, frame: Vec::new(), cap }
    }
    pub fn is_boundary_fresh(&self) -> bool {
        !self.in_frame && self.unacc == 0
    }

    /// Feed byte `b` and the implementation's answer `r`.
    pub fn byte(&mut self, b: u8, r: &Out, f: &mut Vec<Finding>) -> StepKind {
        if let Out::Panic(p) = r {
            f.push(("C05 M-total: panic in push_byte", p.clone()));
            return StepKind::Quiet;
        }
        self.unacc += 1;
        if !self.in_frame {
            self.scan = kmp(self.scan, b);
            if self.scan == 8 {
                let exp = if self.unacc > 8 {
                    Out::Err(DecodeErr::DiscardedBytes(self.unacc - 8))
                } else {
                    Out::None
                };
                if *r != exp {
                    f.push((
                        "C08 M-start: start sequence after noise not reported/detected",
                        format!("expected {} got {}", exp.short(), r.short()),
                    ));
                    if let Out::Err(DecodeErr::DiscardedBytes(_)) = r {
                        f.push(("C17 M-tile: wrong discarded count at start sequence", format!("expected {} got {}", exp.short(), r.short())));
                    }
                }
                self.in_frame = true;
                self.unacc = 8;
                self.scan = 0;
                self.frame.clear();
                self.frame.extend_from_slice(&START);
                StepKind::Start
            } else {
                if *r != Out::None {
                    f.push(("C17 M-tile: output while idle without a start sequence", format!("got {}", r.short())));
                    if let Out::Err(DecodeErr::DiscardedBytes(_)) = r {
                        f.push(("C08 M-start: a start sequence is reported inside noise that does not contain one", format!("got {} after {} bytes of noise", r.short(), self.unacc)));
                    }
                    if let Out::Msg(_) = r {
                        f.push(("C02 M-sound: payload reported outside any frame", format!("got {}", r.short())));
                    }
                }
                StepKind::Quiet
            }
        } else {
            self.frame.push(b);
            match r {
                Out::None => {
                    if self.tail_looks_like_end() {
                        if let Some(p) = recognise(&self.frame) {
                            f.push((
                                "C01 M-complete: canonical frame not delivered at its last byte",
                                format!("payload {} frame {}", crate::json::hex(&p), crate::json::hex(&self.frame)),
                            ));
                        }
                    }
                    StepKind::Quiet
                }
                Out::Msg(p) => {
                    if canon(p) != self.frame {
                        f.push((
                            "C02 M-sound: payload reported for a non-canonical frame",
                            format!("reported {} for raw frame {}", crate::json::hex(p), crate::json::hex(&self.frame)),
                        ));
                    }
                    self.to_idle();
                    StepKind::Delivered
                }
                Out::Err(DecodeErr::DiscardedBytes(n)) => {
                    let ends_with_start = self.frame.len() >= 16 && self.frame[self.frame.len() - 8..] == START;
                    if *n != self.unacc - 8 || !ends_with_start {
                        f.push((
                            "C17 M-tile: in-frame discarded report does not match a start sequence / count",
                            format!("reported {} with {} bytes since boundary, tail {}", n, self.unacc, crate::json::hex(&self.frame[self.frame.len().saturating_sub(8)..])),
                        ));
                    }
                    self.unacc = 8;
                    self.frame.clear();
                    self.frame.extend_from_slice(&START);
                    StepKind::Restart
                }
                Out::Err(_) => {
                    if self.tail_looks_like_end() {
                        if let Some(p) = recognise(&self.frame) {
                            let oom_ok = matches!(r, Out::Err(DecodeErr::OutOfMemory)) && self.cap.map_or(false, |c| p.len() > c);
                            if !oom_ok {
                                f.push((
                                "C01 M-complete: canonical frame rejected",
                                format!("payload {} answer {}", crate::json::hex(&p), r.short()),
                            ));
                            }
                        }
                    }
                    if matches!(r, Out::Err(DecodeErr::OutOfMemory)) && self.cap.is_none() {
                        f.push(("C16 out-of-memory reported with a growable buffer", format!("frame {}", crate::json::hex(&self.frame))));
                    }
                    self.to_idle();
                    StepKind::Rejected
                }
                Out::Panic(_) => unreachable!(),
            }
        }
    }
    /// cheap necessary condition for `recognise(frame).is_some()`
    fn tail_looks_like_end(&self) -> bool {
        let l = self.frame.len();
        l % 4 == 0 && l >= 16 && self.frame[l - 8..l - 3] == [0x1b, 0x1b, 0x1b, 0x1b, 0x1a]
    }
    fn to_idle(&mut self) {
        self.in_frame = false;
        self.unacc = 0;
        self.scan = 0;
        self.frame.clear();
    }
    /// `finalize()` was called and answered `r`.
    pub fn finalize(&mut self, r: &Result<Option<DecodeErr>, String>, f: &mut Vec<Finding>) -> StepKind {
        match r {
            Err(p) => f.push(("C05 M-total: panic in finalize", p.clone())),
            Ok(r) => {
                let exp = if self.unacc == 0 { None } else { Some(DecodeErr::DiscardedBytes(self.unacc)) };
                if *r != exp {
                    f.push(("C17 M-tile: finalize reports wrong leftover", format!("expected {:?} got {:?}", exp, r)));
                }
            }
        }
        self.to_idle();
        StepKind::Finalized
    }
    /// `reset()` was called and answered `r`.
    pub fn reset(&mut self, r: &Result<usize, String>, f: &mut Vec<Finding>) -> StepKind {
        match r {
            Err(p) => f.push(("C05 M-total: panic in reset", p.clone())),
            Ok(n) => {
                if *n != self.unacc {
                    f.push(("C17 M-tile: reset reports wrong leftover", format!("expected {} got {}", self.unacc, n)));
                }
            }
        }
        self.to_idle();
        StepKind::Reset
    }
    /// An I/O error that discards (`Eof`/`Other`) carried count `n`.
    pub fn io_discard(&mut self, n: usize, f: &mut Vec<Finding>) {
        if n != self.unacc {
            f.push(("C17 M-tile: I/O error carries wrong discarded count", format!("expected {} got {}", self.unacc, n)));
        }
        self.to_idle();
    }
}

/// Result of running the real push decoder over a stream under the monitor.
pub struct MonRun {
    pub events: Vec<crate::fe::Ev>,
    pub pos: Vec<usize>,
    pub findings: Vec<Finding>,
    /// monitor state `(in_frame, unacc)` after consuming `marks[i]` bytes
    pub at_marks: Vec<(bool, usize)>,
    pub kinds: Vec<StepKind>,
}
/// Feeds `stream` byte by byte to a fresh real decoder of buffer `kind`, checks
/// every answer against the monitor, then calls `finalize`.
pub fn mon_run(kind: crate::dec::BufKind, stream: &[u8], marks: &[usize]) -> MonRun {
    use crate::fe::Ev;
    let mut d = crate::dec::new_dec(kind);
    let mut m = Mon::new(kind.cap());
    let mut r = MonRun { events: vec![], pos: vec![], findings: vec![], at_marks: vec![], kinds: vec![] };
    // findings after the first diverging step are consequences of it and are not reported
    let mut cut: Option<usize> = None;
    let mut sink: Vec<Finding> = vec![];
    for (i, &b) in stream.iter().enumerate() {
        if marks.contains(&i) {
            r.at_marks.push((m.in_frame, m.unacc));
        }
        let o = d.push(b);
        let k = if cut.is_none() { m.byte(b, &o, &mut r.findings) } else { m.byte(b, &o, &mut sink) };
        if cut.is_none() && !r.findings.is_empty() {
            cut = Some(r.findings.len());
        }
        if k != StepKind::Quiet {
            r.kinds.push(k);
        }
        match o {
            Out::None => {}
            Out::Msg(x) => {
                r.events.push(Ev::Msg(x));
                r.pos.push(i + 1);
            }
            Out::Err(e) => {
                r.events.push(Ev::Dec(e));
                r.pos.push(i + 1);
            }
            Out::Panic(p) => {
                r.events.push(Ev::Panic(p));
                r.pos.push(i + 1);
                return r;
            }
        }
    }
    if marks.contains(&stream.len()) {
        r.at_marks.push((m.in_frame, m.unacc));
    }
    let f = d.finalize();
    if cut.is_none() {
        m.finalize(&f, &mut r.findings);
    }
    match f {
        Ok(Some(e)) => {
            r.events.push(Ev::Dec(e));
            r.pos.push(stream.len());
        }
        Ok(None) => {}
        Err(p) => {
            r.events.push(Ev::Panic(p));
            r.pos.push(stream.len());
        }
    }
    r
}
