//! Engine E2 — payload enumerator (C01, C07, C16): every payload over a small
//! byte alphabet up to length n, plus long payloads around the 2^8 / 2^10 /
//! 2^13 / 2^16 boundaries, through both encoders, every decoder front-end and
//! every relevant fixed capacity, compared with the spec-level encoder `canon`.
use crate::dec::{guarded, has_cap, with_buf, BufKind, BufVisitor, CAPS};
use crate::fe::{evs_short, run_default_readers, run_frontends, Ev, FeSet, MkBuilder};
use crate::json::{hex, unhex, J};
use crate::mon::mon_run;
use crate::par::par_chunks;
use crate::refm::canon;
use crate::report::{finish, machinery, Counts, Ctx, Tally, Tier, Viol};
use sml_rs::transport::{encode, encode_streaming, DecodeErr};
use sml_rs::util::{Buffer, OutOfMemory};

pub const PI: [u8; 5] = [0x00, 0x01, 0x1a, 0x1b, 0x55];

/// number of strings of length <= n over an alphabet of k symbols
pub fn count_upto(k: u64, n: u32) -> u64 {
    (0..=n).map(|l| k.pow(l)).sum()
}
/// idx-th string (shortest first, then lexicographic) over `alpha`
pub fn nth_string(mut idx: u64, alpha: &[u8]) -> Vec<u8> {
    let k = alpha.len() as u64;
    let mut len = 0u32;
    loop {
        let c = k.pow(len);
        if idx < c {
            break;
        }
        idx -= c;
        len += 1;
    }
    let mut v = vec![0u8; len as usize];
    for i in (0..len as usize).rev() {
        v[i] = alpha[(idx % k) as usize];
        idx /= k;
    }
    v
}

fn filler(kind: usize, len: usize) -> Vec<u8> {
    let pat: &[u8] = match kind {
        0 => &[0x55],
        1 => &[0x1b],
        2 => &[0x00],
        3 => &[0x1b, 0x1b, 0x1b, 0x1b, 0x55],
        _ => &[0x00, 0x1b],
    };
    (0..len).map(|i| pat[i % pat.len()]).collect()
}
pub const NFILL: usize = 5;

/// The long-payload family: filler x total length L x tail.
pub fn long_payloads(tier: Tier, alpha: &[u8]) -> Vec<Vec<u8>> {
    let mut ls: Vec<usize> = vec![];
    let tail_n;
    match tier {
        Tier::Quick => {
            ls.extend(252..=260);
            tail_n = 2;
        }
        Tier::Thorough => {
            ls.extend(250..=262);
            ls.extend(1019..=1029);
            ls.extend(65531..=65541);
            tail_n = 3;
        }
    }
    let ntails = count_upto(alpha.len() as u64, tail_n);
    let mut v = vec![];
    for &l in &ls {
        for f in 0..NFILL {
            for t in 0..ntails {
                let tail = nth_string(t, alpha);
                if tail.len() > l {
                    continue;
                }
                let mut p = filler(f, l - tail.len());
                p.extend_from_slice(&tail);
                v.push(p);
            }
        }
    }
    if tier == Tier::Quick {
        // a handful of payloads beyond 2^10, 2^13 and 2^16 also in the quick tier
        for &l in &[1023usize, 1024, 1025, 2047, 2048, 2049, 4093, 4094, 4095, 4096, 4097, 8191, 8192, 8193, 16383, 16384, 16385, 32767, 32768, 32769, 65535, 65536, 65537] {
            for f in 0..NFILL {
                v.push(filler(f, l));
            }
        }
    }
    // LENGTH SWEEP: every payload length in a contiguous range (a defect keyed on one particular
    // length, a multiple of some block size, or any 8-bit counter wrapping at a multiple of 256
    // shows up somewhere in it), three fillers, two tails
    let sweep_to = match tier {
        Tier::Quick => 1100usize,
        Tier::Thorough => 2600,
    };
    let mut lens: Vec<usize> = (10..=sweep_to).collect();
    if tier == Tier::Thorough {
        lens.extend(4080..=4110);
        lens.extend(8150..=8250);
        lens.extend(16380..=16390);
        lens.extend(32760..=32775);
        lens.extend(65500..=65580);
    }
    for l in lens {
        for f in 0..NFILL {
            v.push(filler(f, l));
            let mut p = filler(f, l - 2);
            p.extend_from_slice(&[0x00, 0x1b]);
            v.push(p);
        }
        // a run of four / five 0x1b at every offset (the run ends the payload, or one byte follows):
        // escape insertion that depends on the position in the payload (block buffering ...)
        for tail in [&[0x1bu8, 0x1b, 0x1b, 0x1b][..], &[0x1b, 0x1b, 0x1b, 0x1b, 0x55], &[0x1b, 0x1b, 0x1b, 0x1b, 0x1b, 0x00]] {
            let mut p = filler(0, l - tail.len());
            p.extend_from_slice(tail);
            v.push(p);
        }
    }
    // ALL BYTE VALUES: every payload of length <= 2 over the full byte range, and every byte value
    // at every position of three 8-byte backgrounds (a defect keyed on a byte value outside the
    // five classes, e.g. a comparison turned into a range)
    for a in 0..=255u8 {
        v.push(vec![a]);
        for b in 0..=255u8 {
            v.push(vec![a, b]);
        }
    }
    for bg in [0x55u8, 0x00, 0x1b] {
        for pos in 0..8 {
            for val in 0..=255u8 {
                let mut p = vec![bg; 8];
                p[pos] = val;
                v.push(p);
            }
        }
    }
    if tier == Tier::Thorough {
        for a in 0..=255u8 {
            for b in 0..=255u8 {
                for c in [0x00u8, 0x01, 0x1a, 0x1b, 0x1c, 0x03, 0x04, 0x7f, 0x80, 0xff] {
                    v.push(vec![a, b, c]);
                    v.push(vec![c, a, b]);
                }
            }
        }
    }
    v
}

/// Multi-frame streams: n frames (n = 1 ... max) of short payloads, with noise, a rejected frame
/// and an in-frame restart sprinkled in at fixed periods - state that accumulates over
/// transmissions (anything counting frames, errors or bytes across boundaries) has room to wrap.
pub fn many_frames_stream(n: usize, variant: usize) -> (Vec<u8>, Vec<Vec<u8>>) {
    let (s, d, _) = many_frames_stream_ends(n, variant);
    (s, d)
}
/// Same, also returning the offsets right after each delivered frame (transmission boundaries).
/// Variant 3 additionally ends in three noise bytes, so that the final leftover count is exercised
/// after many transmissions.
pub fn many_frames_stream_ends(n: usize, variant: usize) -> (Vec<u8>, Vec<Vec<u8>>, Vec<usize>) {
    let mut s = vec![];
    let mut delivered = vec![];
    let mut ends = vec![];
    for i in 0..n {
        let p: Vec<u8> = match (i + variant) % 5 {
            0 => vec![],
            1 => vec![0x55, (i % 251) as u8],
            2 => vec![0x00, 0x00, 0x1b],
            3 => vec![0x1b, 0x1b, 0x1b, 0x1b, (i % 7) as u8],
            _ => vec![(i % 256) as u8; (i % 9) + 1],
        };
        if variant > 0 && i % 7 == 3 {
            s.extend_from_slice(&[0x55, 0x1b]); // noise
        }
        if variant > 1 && i % 11 == 5 {
            let mut bad = canon(&[0x42]);
            let l = bad.len();
            bad[l - 1] ^= 0x40; // rejected frame
            s.extend(bad);
        }
        if variant > 1 && i % 13 == 6 {
            s.extend_from_slice(&crate::refm::START);
            s.extend_from_slice(&[0x01, 0x02, 0x03]); // aborted by the next start sequence
        }
        s.extend(canon(&p));
        ends.push(s.len());
        delivered.push(p);
    }
    if variant >= 3 {
        s.extend_from_slice(&[0x55, 0x00, 0x1b]);
    }
    (s, delivered, ends)
}

fn key_payload(p: &[u8]) -> String {
    if p.len() <= 64 {
        format!("payload={}", hex(p))
    } else {
        format!("payload[len={},fnv={:016x}]", p.len(), crate::report::fnv(&hex(p)))
    }
}
fn viol(prop: &str, class: &str, p: &[u8], what: String) -> Viol {
    Viol {
        class: class.to_string(),
        key: key_payload(p),
        what,
        case: J::obj().set("engine", "e2").set("check", prop).set("payload", hex(p)),
        size: p.len(),
    }
}

// ------------------------------------------------------------------ C07
struct EncVisit<'a> {
    p: &'a [u8],
}
impl<'a> BufVisitor for EncVisit<'a> {
    type Out = Result<Result<Vec<u8>, OutOfMemory>, String>;
    fn visit<B: Buffer + MkBuilder + Send + 'static>(self) -> Self::Out {
        guarded(|| encode::<B>(self.p).map(|b| b[..].to_vec()))
    }
}

fn is_nontrivial_payload(p: &[u8]) -> bool {
    // frame contains an inserted escape, a non-zero pad, a trailing 0x1b / 0x00 run or is >= 256 bytes
    let f = canon(p);
    let pad = f[f.len() - 3];
    let has_esc = p.windows(4).any(|w| w == [0x1b; 4]);
    pad != 0 || has_esc || p.last().map_or(false, |&b| b == 0x1b || b == 0) || p.len() >= 256
}

pub fn c07_payload(p: &[u8], out: &mut Vec<Viol>, counts: &mut Counts) {
    let f = canon(p);
    let mut bad = |class: &str, what: String| out.push(viol("C07", class, p, what));
    // buffer encoder, growable, both borrow flavours
    match guarded(|| encode::<Vec<u8>>(p)) {
        Ok(Ok(v)) => {
            if v != f {
                bad("C07 encode::<Vec> differs from the Transport-v1 frame", format!("expected {} got {}", hx(&f), hx(&v)));
            }
        }
        Ok(Err(_)) => bad("C07 encode::<Vec> reports OutOfMemory", String::new()),
        Err(pn) => bad("C05 panic in encode", pn),
    }
    match guarded(|| encode::<Vec<u8>>(p.iter().copied())) {
        Ok(Ok(v)) => {
            if v != f {
                bad("C07 encode::<Vec> (by value) differs from the Transport-v1 frame", format!("expected {} got {}", hx(&f), hx(&v)));
            }
        }
        Ok(Err(_)) => bad("C07 encode::<Vec> reports OutOfMemory", String::new()),
        Err(pn) => bad("C05 panic in encode", pn),
    }
    // iterator encoder
    let mut hint_bad: Option<(usize, usize, Option<usize>, usize)> = None;
    let lim = f.len() + 64;
    let long_poll = p.len() <= 1 || p.len() >= 250 || (p.len() == 5 && p[0] == p[4]);
    if long_poll {
        counts.inc("payloads whose ended iterator was polled 66000 more times");
    }
    match guarded(|| {
        let mut it = encode_streaming(p);
        let mut v = Vec::with_capacity(f.len());
        let mut ended = false;
        while v.len() < lim {
            // the hint must be callable at any time and must bracket what is still to come
            let (lo, hi) = it.size_hint();
            let left = f.len().saturating_sub(v.len());
            if lo > left || hi.map_or(false, |h| h < left) {
                hint_bad = Some((v.len(), lo, hi, left));
            }
            match it.next() {
                Some(b) => v.push(b),
                None => {
                    ended = true;
                    break;
                }
            }
        }
        let mut after = vec![];
        if ended {
            // "ends for good": a few further polls for every payload, and beyond every 8- and
            // 16-bit counter width for a sample of payloads (an end counter that keeps running
            // would wrap there)
            let polls = if long_poll { 66_000 } else { 3 };
            for _ in 0..polls {
                if let Some(b) = it.next() {
                    after.push(b);
                    if after.len() >= 8 {
                        break;
                    }
                }
            }
        }
        (v, ended, after)
    }) {
        Ok((v, ended, after)) => {
            if !ended {
                bad("C07 encode_streaming does not end", format!("{} bytes and still going", v.len()));
            } else {
                if v != f {
                    bad("C07 encode_streaming differs from the Transport-v1 frame", format!("expected {} got {}", hx(&f), hx(&v)));
                }
                if !after.is_empty() {
                    bad("C07 encode_streaming yields bytes after its end", format!("extra {}", hex(&after)));
                }
            }
        }
        Err(pn) => bad("C05 panic in encode_streaming", pn),
    }
    // the buffer encoder over an iterator whose size_hint is (0, usize::MAX)
    match guarded(|| encode::<Vec<u8>>(crate::fe::hinted(p))) {
        Ok(Ok(v)) => {
            if v != f {
                bad("C07 encode::<Vec>(iterator with a loose size_hint) differs from the Transport-v1 frame", format!("expected {} got {}", hx(&f), hx(&v)));
            }
        }
        Ok(Err(_)) => bad("C07 encode::<Vec> reports OutOfMemory", String::new()),
        Err(pn) => bad("C05 panic in encode (iterator with a loose size_hint)", pn),
    }
    // `Encoder::new` directly (what `encode_streaming` wraps)
    match guarded(|| sml_rs::transport::Encoder::new(p.iter().copied()).take(lim).collect::<Vec<u8>>()) {
        Ok(v) => {
            if v != f {
                bad("C07 Encoder::new(..) differs from the Transport-v1 frame", format!("expected {} got {}", hx(&f), hx(&v)));
            }
        }
        Err(pn) => bad("C05 panic in Encoder::new / next", pn),
    }
    if let Some((at, lo, hi, left)) = hint_bad {
        bad("C07 encode_streaming: size_hint does not bracket the bytes still to come", format!("after {} bytes: hint ({}, {:?}), {} bytes left", at, lo, hi, left));
    }
    // fixed buffers: OutOfMemory exactly when the frame does not fit
    let fl = f.len();
    // every capacity up to ENC_CAP_MAX is instantiated for the encoder; beyond it the boundary
    // capacities of CAPS
    let has = |n: usize| n <= crate::enc_caps::ENC_CAP_MAX || CAPS.contains(&n);
    let caps: Vec<usize> = if p.len() <= 6 {
        (0..=fl + 1).filter(|&n| has(n)).collect()
    } else {
        (fl.saturating_sub(2)..=fl + 1).chain([0, fl / 2]).filter(|&n| has(n)).collect()
    };
    for n in caps {
        counts.inc("fixed-capacity encodes");
        let r = match crate::enc_caps::encode_arr(n, p) {
            Some(r) => r,
            None => with_buf(BufKind::Arr(n), EncVisit { p }).unwrap(),
        };
        match r {
            Ok(Ok(v)) => {
                if n < fl {
                    bad("C07 encode into a too small ArrayBuf succeeds", format!("N={} frame length {}", n, fl));
                } else if v != f {
                    bad("C07 encode::<ArrayBuf> differs from the Transport-v1 frame", format!("N={} expected {} got {}", n, hx(&f), hx(&v)));
                }
                counts.inc("fixed-capacity encode fits");
            }
            Ok(Err(OutOfMemory)) => {
                if n >= fl {
                    bad("C07 encode reports OutOfMemory although the frame fits", format!("N={} frame length {}", n, fl));
                }
                counts.inc("fixed-capacity encode OutOfMemory");
            }
            Err(pn) => bad("C05 panic in encode::<ArrayBuf>", format!("N={}: {}", n, pn)),
        }
    }
}
fn hx(b: &[u8]) -> String {
    if b.len() <= 80 {
        hex(b)
    } else {
        format!("{}..{} (len {})", hex(&b[..24]), hex(&b[b.len() - 24..]), b.len())
    }
}

/// The iterator encoder over inputs that never end or announce a huge length: `size_hint`, `take`,
/// `chain`, `extend` must return normally and the bytes produced must be the frame's prefix.
pub fn c07_unbounded(out: &mut Vec<Viol>, counts: &mut Counts) {
    let pats: [&[u8]; 4] = [&[0x55], &[0x1b], &[0x00, 0x1b, 0x1b, 0x1b, 0x1b], &[0x01, 0x1a]];
    for (pi, pat) in pats.iter().enumerate() {
        let prefix_payload: Vec<u8> = pat.iter().copied().cycle().take(400).collect();
        let want = canon(&prefix_payload);
        let inputs: Vec<(&str, Box<dyn FnOnce() -> Result<Vec<u8>, String>>)> = vec![
            ("cycle", Box::new({ let pat = pat.to_vec(); move || guarded(|| { let mut e = encode_streaming(pat.iter().copied().cycle()); let _ = e.size_hint(); e.by_ref().take(300).collect::<Vec<u8>>() }) })),
            ("repeat-take-usize-max", Box::new({ let pat = pat.to_vec(); move || guarded(|| { let b = pat[0]; let mut e = encode_streaming(std::iter::repeat(b).take(usize::MAX)); let _ = e.size_hint(); let mut v = vec![]; v.extend(e.by_ref().take(300)); if pat.len() == 1 { v } else { vec![] } }) })),
            ("range-map", Box::new({ let pat = pat.to_vec(); move || guarded(|| { let n = pat.len(); let p2 = pat.clone(); let mut e = encode_streaming((0..usize::MAX).map(move |i| p2[i % n])); let _ = e.size_hint(); let c = e.by_ref().chain(std::iter::once(0xaa)); let _ = c.size_hint(); c.take(300).collect::<Vec<u8>>() }) })),
        ];
        for (name, f) in inputs {
            counts.inc("unbounded-input encoder runs");
            match f() {
                Ok(v) => {
                    if !v.is_empty() && v[..] != want[..v.len().min(want.len())] {
                        out.push(Viol { class: "C07 encode_streaming over an unbounded input does not produce the frame's prefix".into(), key: format!("unbounded:{}:{}", name, pi), what: format!("got {} want {}", hex(&v[..v.len().min(40)]), hex(&want[..40])), case: J::obj().set("engine", "e2").set("check", "C07u"), size: pi });
                    }
                }
                Err(p) => out.push(Viol { class: "C05 panic in encode_streaming (size_hint / unbounded input)".into(), key: format!("unbounded:{}:{}", name, pi), what: p, case: J::obj().set("engine", "e2").set("check", "C07u"), size: pi }),
            }
        }
    }
}

// ------------------------------------------------------------------ C01
fn real_frames(p: &[u8]) -> Vec<(String, Vec<u8>)> {
    let f = canon(p);
    let mut v = vec![("canon".to_string(), f.clone())];
    if let Ok(Ok(e)) = guarded(|| encode::<Vec<u8>>(p)) {
        if e != f {
            v.push(("encode".to_string(), e));
        }
    }
    if let Ok(e) = guarded(|| encode_streaming(p).take(f.len() + 64).collect::<Vec<u8>>()) {
        if v.iter().all(|x| x.1 != e) {
            v.push(("encode_streaming".to_string(), e));
        }
    }
    v
}
fn next_cap_above(n: usize) -> Option<usize> {
    CAPS.iter().copied().find(|&c| c > n)
}

pub fn c01_payload(p: &[u8], out: &mut Vec<Viol>, counts: &mut Counts) {
    let mut kinds = vec![BufKind::Vec];
    if has_cap(p.len()) {
        kinds.push(BufKind::Arr(p.len()));
    }
    if let Some(c) = next_cap_above(p.len()) {
        kinds.push(BufKind::Arr(c));
    }
    for (src, frame) in real_frames(p) {
        let want = vec![Ev::Msg(p.to_vec())];
        for &k in &kinds {
            for t in run_frontends(k, &frame, FeSet::All) {
                counts.inc("front-end runs");
                if t.events != want {
                    out.push(viol(
                        "C01",
                        "C01 round trip: front-end does not return exactly the payload",
                        p,
                        format!("{} with {} on the frame from {}: got {}", t.name, k.name(), src, evs_short(&t.events)),
                    ));
                } else if let Some(pos) = &t.pos {
                    if pos != &vec![frame.len()] {
                        out.push(viol(
                            "C01",
                            "C01 round trip: payload not reported at the frame's last byte",
                            p,
                            format!("{} with {}: reported after {:?} of {} bytes", t.name, k.name(), pos, frame.len()),
                        ));
                    }
                }
            }
        }
        if p.len() <= 8192 {
            for t in run_default_readers(&frame) {
                counts.inc("front-end runs");
                if t.events != want {
                    out.push(viol(
                        "C01",
                        "C01 round trip: front-end does not return exactly the payload",
                        p,
                        format!("{} on the frame from {}: got {}", t.name, src, evs_short(&t.events)),
                    ));
                }
            }
        }
    }
}

// ------------------------------------------------------------------ C16
const FOLLOW: [&[u8]; 3] = [&[], &[0x55], &[0x00, 0x00]];

pub fn c16_payload(p: &[u8], out: &mut Vec<Viol>, counts: &mut Counts) {
    let f1 = canon(p);
    for n in 0..=p.len() + 1 {
        if !has_cap(n) {
            continue;
        }
        for q in FOLLOW {
            c16_case(p, n, q, &f1, out, counts);
        }
    }
    c16_after_abort(p, &f1, out, counts);
}
/// A transmission that is cut off by the next start sequence (start + `a`, then the frame of
/// `p`): whatever the aborted transmission left behind - withheld zeros, 0x1b counts, buffer
/// contents - the frame of `p` still needs exactly |p| bytes. `a` is kept within the capacity
/// so that the aborted transmission itself cannot run out of memory.
const ABORTS: [&[u8]; 10] = [&[], &[0x00], &[0x00, 0x00], &[0x00, 0x00, 0x00], &[0x00, 0x00, 0x00, 0x00], &[0x00, 0x00, 0x00, 0x00, 0x00], &[0x55, 0x00, 0x00, 0x00, 0x00], &[0x1b, 0x55], &[0x1b, 0x00, 0x00, 0x00, 0x00], &[0x00, 0x00, 0x00, 0x00, 0x00, 0x00, 0x00]];
// (no `a` ends in 0x1b: start+..1b followed by 1b1b1b1b is a misaligned escape, not a restart)
fn c16_after_abort(p: &[u8], f1: &[u8], out: &mut Vec<Viol>, counts: &mut Counts) {
    for n in [p.len(), p.len() + 1] {
        if !has_cap(n) {
            continue;
        }
        for a in ABORTS {
            if a.len() > n {
                continue;
            }
            let mut stream = crate::refm::START.to_vec();
            stream.extend_from_slice(a);
            stream.extend_from_slice(f1);
            counts.inc("runs after an aborted transmission");
            let run = mon_run(BufKind::Arr(n), &stream, &[]);
            let ctx = |s: &str| format!("N={} aborted transmission start+{} : {} ; events {}", n, hex(a), s, evs_short(&run.events));
            let mut bad = |class: &str, what: String| {
                let mut v = viol("C16", class, p, what);
                v.key = format!("{} N={} abort={}", v.key, n, hex(a));
                out.push(v)
            };
            for (c, w) in &run.findings {
                bad(c, ctx(w));
            }
            let oom = run.events.iter().any(|e| *e == Ev::Dec(DecodeErr::OutOfMemory));
            if oom || run.events.last() != Some(&Ev::Msg(p.to_vec())) || run.pos.last() != Some(&stream.len()) {
                bad("C16 frame after an aborted transmission does not decode in a buffer of exactly its payload length (or larger)", ctx("expected Ok(payload) at the frame's last byte and no OutOfMemory"));
            }
        }
    }
}
fn c16_case(p: &[u8], n: usize, q: &[u8], f1: &[u8], out: &mut Vec<Viol>, counts: &mut Counts) {
    let kind = BufKind::Arr(n);
    let mut stream = f1.to_vec();
    stream.extend_from_slice(&canon(q));
    counts.inc("runs");
    let run = mon_run(kind, &stream, &[f1.len()]);
    let ctx = |s: &str| format!("N={} follow-up={} : {} ; events {}", n, hex(q), s, evs_short(&run.events));
    let mut bad = |class: &str, what: String| {
        let mut v = viol("C16", class, p, what);
        v.key = format!("{} N={} q={}", v.key, n, hex(q));
        out.push(v)
    };
    for (c, w) in &run.findings {
        bad(c, ctx(w));
    }
    if n >= p.len() {
        counts.inc("runs with sufficient capacity");
        if run.events.first() != Some(&Ev::Msg(p.to_vec())) || run.pos.first() != Some(&f1.len()) {
            bad("C16 frame does not decode in a buffer of exactly its payload length (or larger)", ctx("expected Ok(payload) at the frame's last byte"));
        }
    } else {
        counts.inc("runs with out-of-memory");
        if run.events.first() != Some(&Ev::Dec(DecodeErr::OutOfMemory)) || run.pos.first().map_or(true, |&x| x > f1.len()) {
            bad("C16 too small buffer: first result is not OutOfMemory inside the frame", ctx("expected Err(OutOfMemory)"));
        }
        for (e, &ps) in run.events.iter().zip(&run.pos) {
            if ps <= f1.len() {
                if let Ev::Msg(m) = e {
                    bad("C16 too small buffer: a payload is reported for the overflowing frame", ctx(&format!("Ok({})", hex(m))));
                }
            }
        }
    }
    // the follow-up frame
    let (in_frame, _unacc) = run.at_marks[0];
    if !in_frame {
        let last_msg = run.events.iter().rev().find_map(|e| if let Ev::Msg(m) = e { Some(m.clone()) } else { None });
        let delivered = run.pos.iter().zip(&run.events).any(|(&ps, e)| ps == stream.len() && *e == Ev::Msg(q.to_vec()));
        if q.len() <= n {
            if delivered {
                counts.inc("follow-up frames delivered");
            } else {
                bad("C16 decoder not ready for the next frame after the first one", ctx(&format!("follow-up payload not delivered (last payload {:?})", last_msg.map(|m| hex(&m)))));
            }
        }
    } else {
        counts.inc("follow-up starts while the rest of frame 1 looks like a frame");
    }
    // the other front-ends with the same capacity must agree
    let want: Vec<Ev> = run.events.clone();
    for t in run_frontends(kind, &stream, FeSet::All).into_iter().skip(1) {
        if t.normalized() != want {
            bad("C16 front-ends disagree under a too small / exact buffer", ctx(&format!("{} got {}", t.name, evs_short(&t.events))));
        }
    }
}

/// The default 8 KiB reader buffer: payloads of 8191 / 8192 / 8193 bytes with tails
/// of zero runs and 0x1b runs.
fn c16_default_buffer(out: &mut Vec<Viol>, counts: &mut Counts) {
    for l in [8191usize, 8192, 8193] {
        for tb in [0x00u8, 0x1b] {
            for k in 0..=6usize {
                let mut p = filler(0, l - k);
                p.extend(std::iter::repeat(tb).take(k));
                let mut stream = canon(&p);
                stream.extend_from_slice(&canon(&[0x55]));
                for t in run_default_readers(&stream) {
                    counts.inc("default-buffer runs");
                    let ok = if l <= 8192 {
                        t.events == vec![Ev::Msg(p.clone()), Ev::Msg(vec![0x55])]
                    } else {
                        t.events.first() == Some(&Ev::Dec(DecodeErr::OutOfMemory))
                            && t.events.last() == Some(&Ev::Msg(vec![0x55]))
                            && t.events.iter().filter(|e| matches!(e, Ev::Msg(_))).count() == 1
                    };
                    if !ok {
                        let mut v = viol(
                            "C16",
                            "C16 default 8 KiB reader buffer: wrong behaviour at the capacity boundary",
                            &p,
                            format!("{} payload length {} tail {:02x}x{}: got {}", t.name, l, tb, k, evs_short(&t.events)),
                        );
                        v.size = k;
                        out.push(v);
                    }
                }
            }
        }
    }
}

// ------------------------------------------------------------------ allocation failure (C05 / C07)
/// One scenario, run in a child process (`smlmc allocfail <k>`): the heap refuses every request of
/// 4096 bytes or more while a Vec-backed buffer has to grow. The library must answer with its
/// out-of-memory error value and stay usable; an infallible growth path ends in
/// `handle_alloc_error`, i.e. the child is killed by SIGABRT, which the parent reports.
/// Prints `OK ...` or `FINDING <class> :: <what>` lines.
pub const ALLOCFAIL_SCENARIOS: [&str; 4] = ["encode::<Vec<u8>> of a 10000-byte payload", "Decoder::<Vec<u8>>::push_byte over a frame with a 10000-byte payload", "SmlReader::with_vec_buffer().from_slice over the same frame", "Buffer::extend_from_slice / push on a Vec<u8> directly"];
pub fn allocfail_child(k: usize) {
    use crate::alloc::with_failing_allocations;
    let p: Vec<u8> = (0..10_000u32).map(|i| (i.wrapping_mul(2654435761) >> 24) as u8 | 1).collect();
    let f = canon(&p);
    let small = canon(&[0x42]);
    let mut lines: Vec<String> = Vec::with_capacity(64);
    match k {
        0 => {
            let (r, refused) = with_failing_allocations(4096, || encode::<Vec<u8>>(&p[..]).map(|v| v.len()));
            match r {
                Err(OutOfMemory) => lines.push(format!("OK encode reports OutOfMemory ({} requests refused)", refused)),
                Ok(n) => lines.push(format!("FINDING C07 encode::<Vec> succeeds although the heap refused to grow the buffer :: returned {} bytes, {} requests refused", n, refused)),
            }
            match encode::<Vec<u8>>(&p[..]) {
                Ok(v) if v == f => lines.push("OK encode works again once memory is available".into()),
                other => lines.push(format!("FINDING C05 encode unusable after an allocation failure :: {:?}", other.map(|v| v.len()))),
            }
        }
        1 => {
            let mut d = sml_rs::transport::Decoder::<Vec<u8>>::new();
            let mut first: Option<(usize, String)> = None;
            let mut delivered_first = false;
            let (_, refused) = with_failing_allocations(4096, || {
                for (i, &b) in f.iter().enumerate() {
                    match d.push_byte(b) {
                        Ok(None) => {}
                        Ok(Some(m)) => {
                            delivered_first = m.len() == 10_000;
                            if first.is_none() {
                                first = Some((i, String::from("Ok(payload)")));
                            }
                        }
                        Err(e) => {
                            if first.is_none() {
                                first = Some((i, match e {
                                    sml_rs::transport::DecodeErr::OutOfMemory => String::from("OutOfMemory"),
                                    _ => String::from("another error"),
                                }));
                            }
                        }
                    }
                }
            });
            match &first {
                Some((i, s)) if s == "OutOfMemory" => lines.push(format!("OK push_byte reports OutOfMemory at byte {} ({} requests refused)", i, refused)),
                other => lines.push(format!("FINDING C05 the decoder does not report OutOfMemory when its Vec buffer cannot grow :: first result {:?}, payload delivered: {}, {} requests refused", other, delivered_first, refused)),
            }
            // memory is available again: the rest of the first frame was noise, the next frame must arrive
            let mut got = false;
            for &b in &small {
                if let Ok(Some(m)) = d.push_byte(b) {
                    got = m == [0x42];
                }
            }
            if got {
                lines.push("OK the decoder delivers the next frame afterwards".into());
            } else {
                lines.push("FINDING C05 the decoder is unusable after an allocation failure :: the following frame is not delivered".into());
            }
        }
        2 => {
            let mut stream = f.clone();
            stream.extend_from_slice(&small);
            let mut rd = sml_rs::SmlReader::with_vec_buffer().from_slice(&stream);
            let (first, refused) = with_failing_allocations(4096, || match rd.next::<sml_rs::DecodedBytes>() {
                Some(Err(sml_rs::transport::ReadDecodedError::DecodeErr(sml_rs::transport::DecodeErr::OutOfMemory))) => 0,
                Some(Ok(_)) => 1,
                Some(Err(_)) => 2,
                None => 3,
            });
            if first == 0 {
                lines.push(format!("OK the reader reports OutOfMemory ({} requests refused)", refused));
            } else {
                lines.push(format!("FINDING C05 the reader does not report OutOfMemory when its Vec buffer cannot grow :: outcome code {}, {} requests refused", first, refused));
            }
            let mut got = false;
            for _ in 0..4 {
                if let Some(Ok(m)) = rd.next::<sml_rs::DecodedBytes>() {
                    got = m == [0x42];
                }
            }
            if got {
                lines.push("OK the reader delivers the next frame afterwards".into());
            } else {
                lines.push("FINDING C05 the reader is unusable after an allocation failure :: the following frame is not delivered".into());
            }
        }
        _ => {
            use sml_rs::util::Buffer;
            let mut v: Vec<u8> = Vec::new();
            let chunk = [0x55u8; 1000];
            let (r, refused) = with_failing_allocations(4096, || {
                let mut res = vec![];
                for _ in 0..8 {
                    res.push(Buffer::extend_from_slice(&mut v, &chunk).is_ok());
                }
                for _ in 0..5000 {
                    if Buffer::push(&mut v, 1).is_err() {
                        res.push(false);
                        break;
                    }
                }
                res
            });
            if r.contains(&false) && v.len() < 8192 && v.iter().all(|&b| b == 0x55 || b == 1) {
                lines.push(format!("OK Vec as Buffer answers OutOfMemory and keeps its {} bytes ({} requests refused)", v.len(), refused));
            } else {
                lines.push(format!("FINDING C05 Vec as Buffer does not answer OutOfMemory when it cannot grow :: results {:?}, length {}", &r[..r.len().min(10)], v.len()));
            }
        }
    }
    for l in lines {
        println!("{}", l);
    }
}
/// Parent side: runs every scenario in a child process and turns its fate into findings.
pub fn allocfail_findings(report: &[&str], counts: &mut Counts) -> Vec<Viol> {
    let mut out = vec![];
    let exe = match std::env::current_exe() {
        Ok(e) => e,
        Err(e) => machinery(&format!("allocation-failure scenarios: current_exe: {}", e)),
    };
    for k in 0..ALLOCFAIL_SCENARIOS.len() {
        let o = match std::process::Command::new(&exe).arg("allocfail").arg(k.to_string()).output() {
            Ok(o) => o,
            Err(e) => machinery(&format!("allocation-failure scenarios: cannot start the child process: {}", e)),
        };
        counts.inc("allocation-failure scenarios run in a child process");
        let text = String::from_utf8_lossy(&o.stdout).to_string();
        let mut found: Vec<(String, String)> = vec![];
        if !o.status.success() {
            use std::os::unix::process::ExitStatusExt;
            found.push(("C05 an allocation failure aborts the process instead of being reported as an error value".into(), format!("{}: child ended with {:?} (signal {:?}); stderr: {}", ALLOCFAIL_SCENARIOS[k], o.status.code(), o.status.signal(), String::from_utf8_lossy(&o.stderr).lines().last().unwrap_or(""))));
        }
        let mut oks = 0;
        for l in text.lines() {
            if let Some(r) = l.strip_prefix("FINDING ") {
                let (c, w) = r.split_once(" :: ").unwrap_or((r, ""));
                found.push((c.to_string(), format!("{}: {}", ALLOCFAIL_SCENARIOS[k], w)));
            } else if l.starts_with("OK ") {
                oks += 1;
            }
        }
        if found.is_empty() && oks == 0 {
            machinery(&format!("allocation-failure scenario {} produced no verdict: {}", k, text));
        }
        for (class, what) in found {
            if report.iter().any(|p| class.starts_with(p)) {
                out.push(Viol { class, key: format!("allocfail:{}", k), what, case: J::obj().set("engine", "e2").set("check", "allocfail").set("scenario", k), size: k });
            }
        }
    }
    out
}

// ------------------------------------------------------------------ driver
pub fn replay(case: &J) -> Vec<Viol> {
    let p = case.get("payload").and_then(|x| x.as_str()).and_then(unhex).unwrap_or_default();
    let mut out = vec![];
    let mut c = Counts::default();
    match case.get("check").and_then(|x| x.as_str()) {
        Some("allocfail") => {
            let k = case.get("scenario").and_then(|x| x.as_i()).unwrap_or(0) as usize;
            return allocfail_findings(&["C05", "C07"], &mut c).into_iter().filter(|v| v.size == k).collect();
        }
        Some("C07") => c07_payload(&p, &mut out, &mut c),
        Some("C07u") => c07_unbounded(&mut out, &mut c),
        Some("C05fe") => {
            // all front-ends on the canonical frame of a long payload: no panic, no hang
            let f = canon(&p);
            let mut trs = run_frontends(BufKind::Vec, &f, FeSet::All);
            if p.len() > 8192 && p.len() <= 65537 {
                trs.extend(run_frontends(BufKind::Arr(65537), &f, FeSet::Core));
            }
            for tr in trs {
                for e in &tr.events {
                    if matches!(e, Ev::Panic(_) | Ev::Hang) {
                        out.push(Viol { class: "C05 front-end panics or hangs".into(), key: format!("long-payload:{}", tr.name), what: e.short(), case: case.clone(), size: p.len() });
                    }
                }
            }
        }
        Some("C01") => c01_payload(&p, &mut out, &mut c),
        Some("C16") => {
            c16_payload(&p, &mut out, &mut c);
            if p.len() > 1000 {
                c16_default_buffer(&mut out, &mut c);
            }
        }
        _ => {}
    }
    out
}

struct Part {
    tally: Tally,
    counts: Counts,
    nontrivial: u64,
    n: u64,
}

fn sweep(
    alpha: &[u8],
    n_short: u32,
    longs: &[Vec<u8>],
    f: &(dyn Fn(&[u8], &mut Vec<Viol>, &mut Counts) + Sync),
) -> Part {
    let total_short = count_upto(alpha.len() as u64, n_short);
    let total = total_short + longs.len() as u64;
    let parts = par_chunks(total, 2048, |a, b| {
        let mut part = Part { tally: Tally::new(), counts: Counts::default(), nontrivial: 0, n: 0 };
        let mut out = vec![];
        for idx in a..b {
            let owned;
            let p: &[u8] = if idx < total_short {
                owned = nth_string(idx, alpha);
                &owned
            } else {
                &longs[(idx - total_short) as usize]
            };
            part.n += 1;
            if is_nontrivial_payload(p) {
                part.nontrivial += 1;
            }
            out.clear();
            f(p, &mut out, &mut part.counts);
            for v in out.drain(..) {
                part.tally.add(v);
            }
        }
        part
    });
    let mut all = Part { tally: Tally::new(), counts: Counts::default(), nontrivial: 0, n: 0 };
    for p in parts {
        all.tally.merge(p.tally);
        all.counts.merge(&p.counts);
        all.nontrivial += p.nontrivial;
        all.n += p.n;
    }
    all
}

fn golden_binding(ctx: &Ctx) -> u64 {
    // canon must reproduce the expected frames of the repository's own encoder tests
    let g: [(&str, &str); 6] = [
        ("12345678", "1b1b1b1b0101010112345678 1b1b1b1b1a00b87b"),
        ("", "1b1b1b1b01010101 1b1b1b1b1a00c6e5"),
        ("123456", "1b1b1b1b0101010112345600 1b1b1b1b1a0191a5"),
        ("121b1b1b1b", "1b1b1b1b01010101121b1b1b1b1b1b1b1b000000 1b1b1b1b1a03be25"),
        ("121b1b1bff", "1b1b1b1b01010101121b1b1bff000000 1b1b1b1b1a0324d9"),
        ("1234567812341b1b", "1b1b1b1b010101011234567812341b1b 1b1b1b1b1a001ac5"),
    ];
    let mut n = 0;
    for (p, f) in g {
        let p = unhex(p).unwrap();
        let f = unhex(f).unwrap();
        if canon(&p) != f {
            crate::report::machinery(&format!("golden binding: canon({}) = {} but the repository's test expects {}", hex(&p), hex(&canon(&p)), hex(&f)));
        }
        n += 1;
    }
    if crate::refm::crc_x25(b"123456789") != 0x906e {
        crate::report::machinery("golden binding: CRC-16/X.25 check value");
    }
    ctx.log(&format!("golden binding: {} frames of the repository's encoder tests reproduced by canon", n));
    n + 1
}

pub fn run(prop: &str, tier: Tier) -> ! {
    let ctx = Ctx::new(prop, tier);
    let golden = golden_binding(&ctx);
    let alpha: Vec<u8> = alphabet_variant();
    let (n_short, f): (u32, &(dyn Fn(&[u8], &mut Vec<Viol>, &mut Counts) + Sync)) = match prop {
        "C07" => (tier.pick(10, 12), &c07_payload),
        "C01" => (tier.pick(9, 11), &c01_payload),
        "C16" => (tier.pick(8, 10), &c16_payload),
        _ => crate::report::machinery("e2: unknown property"),
    };
    let longs = if prop == "C16" { vec![] } else { long_payloads(tier, &alpha) };
    ctx.log(&format!("payloads over {:02x?} up to length {} ({}), plus {} long payloads", alpha, n_short, count_upto(alpha.len() as u64, n_short), longs.len()));
    let mut all = sweep(&alpha, n_short, &longs, f);
    if prop == "C07" {
        let mut out = vec![];
        c07_unbounded(&mut out, &mut all.counts);
        for v in out {
            all.tally.add(v);
        }
    }
    if prop == "C16" {
        // large payloads in a buffer of exactly their length, one less and one more (every
        // instantiated capacity that has instantiated neighbours)
        let mut cases: Vec<(Vec<u8>, usize)> = vec![];
        for l in [255usize, 256, 257, 1023, 1024, 1025, 8191, 8192, 8193, 65535, 65536, 65537] {
            for f in 0..NFILL {
                for tail in [&[][..], &[0x00, 0x00], &[0x1b], &[0x00, 0x1b, 0x1b, 0x1b, 0x1b]] {
                    let mut p = filler(f, l - tail.len());
                    p.extend_from_slice(tail);
                    for n in [l - 1, l, l + 1] {
                        if has_cap(n) {
                            cases.push((p.clone(), n));
                        }
                    }
                }
            }
        }
        let parts = par_chunks(cases.len() as u64, 1, |a, _| {
            let (p, n) = &cases[a as usize];
            let mut out = vec![];
            let mut c = Counts::default();
            c16_case(p, *n, &[0x55], &canon(p), &mut out, &mut c);
            (out, c)
        });
        for (o, c) in parts {
            for v in o {
                all.tally.add(v);
            }
            all.counts.merge(&c);
        }
        all.counts.addn("large exact-capacity cases", cases.len() as u64);
        let mut out = vec![];
        c16_default_buffer(&mut out, &mut all.counts);
        for v in out {
            all.tally.add(v);
        }
    }
    if prop == "C07" {
        // "reports out-of-memory exactly when the frame does not fit the buffer" for the growable
        // buffer: the frame does not fit when the heap refuses to grow it
        for v in allocfail_findings(&["C07", "C05"], &mut all.counts) {
            all.tally.add(v);
        }
    }
    ctx.log(&format!("{} payloads, {} violation instances, counts {:?}", all.n, all.tally.total(), all.counts.0));
    match prop {
        "C07" => all.counts.require(&["fixed-capacity encode fits", "fixed-capacity encode OutOfMemory"]),
        "C01" => all.counts.require(&["front-end runs"]),
        _ => all.counts.require(&["runs with out-of-memory", "runs with sufficient capacity", "follow-up frames delivered"]),
    }
    let evals: u64 = match prop {
        "C07" => all.n * 4 + all.counts.get("fixed-capacity encodes"),
        "C01" => all.counts.get("front-end runs"),
        _ => all.counts.get("runs") + all.counts.get("default-buffer runs"),
    };
    let samples: Vec<J> = [0u64, 7, 100, 3000, count_upto(5, n_short) - 1]
        .iter()
        .map(|&i| {
            let p = nth_string(i.min(count_upto(5, n_short) - 1), &alpha);
            J::obj().set("payload", hex(&p)).set("canonical_frame", hex(&canon(&p)))
        })
        .collect();
    let cov = J::obj()
        .set("states", all.n)
        .set("transitions", evals)
        .set("traces_validated_against_impl", evals + golden)
        .set("golden_vectors", golden)
        .set("evaluations", evals)
        .set("distinct_nontrivial", all.nontrivial)
        .set("rule", "every payload over the alphabet up to the stated length, plus filler x boundary-length x tail long payloads; states = distinct payloads, transitions = encoder / decoder front-end executions compared with the reference; non-trivial = the frame has an inserted escape, a non-zero pad, a trailing 0x1b/0x00 run or >= 256 payload bytes")
        .set("alphabet", alpha.iter().map(|b| format!("{:02x}", b)).collect::<Vec<_>>())
        .set("max_exhaustive_payload_length", n_short)
        .set("long_payloads", longs.len())
        .set("samples", J::Arr(samples))
        .set("outcomes", all.counts.to_json())
        .set("exhaustive", true);
    let assumptions = vec![
        "data independence of the transport layer beyond the byte classes {00,01,1a,1b,other} (DESIGN §4); re-run with VERIF_ALPHA=alt to permute the representative bytes".to_string(),
        "reference encoder `canon` (bit-wise CRC, bound to the repository's expected frames at start-up)".to_string(),
        "64-bit host, features std+alloc+nb".to_string(),
    ];
    finish(&ctx, cov, assumptions, all.tally, &crate::replay_case)
}

/// `VERIF_ALPHA=alt` swaps the representatives (55 -> ff) to test data independence.
pub fn alphabet_variant() -> Vec<u8> {
    match std::env::var("VERIF_ALPHA").as_deref() {
        Ok("alt") => vec![0x00, 0x01, 0x1a, 0x1b, 0xff],
        _ => PI.to_vec(),
    }
}
