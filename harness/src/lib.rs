//! smlmc — bounded exhaustive exploration of sml-rs against reference models.
pub mod alloc;
pub mod dec;
pub mod e1;
pub mod e1c;
pub mod e2;
pub mod e3;
pub mod e4;
pub mod e5;
pub mod fe;
pub mod json;
pub mod mon;
pub mod par;
pub mod refm;
pub mod report;
pub mod sml;
