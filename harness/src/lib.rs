//! smlmc — bounded exhaustive exploration of sml-rs against reference models.
pub mod alloc;
pub mod dec;
pub mod e1;
pub mod e1c;
pub mod e2;
pub mod enc_caps;
pub mod e3;
pub mod e4;
pub mod e5;
pub mod fe;
pub mod json;
pub mod mon;
pub mod par;
pub mod refm;
pub mod report;
pub mod sml;

/// Re-executes a recorded case without any explorer, whichever engine produced it.
pub fn replay_case(case: &json::J) -> Vec<report::Viol> {
    match case.get("engine").and_then(|e| e.as_str()) {
        Some("e1") => e1::replay(case),
        Some("e2") => e2::replay(case),
        Some("e3") => e3::replay(case),
        Some("e4") => e4::replay(case),
        Some("e5") => e5::replay(case),
        _ => vec![],
    }
}
