//! Deterministic data parallelism: index ranges are handed out dynamically, the
//! per-range results are merged in index order, so no verdict or count depends
//! on thread timing.
use std::sync::atomic::{AtomicU64, Ordering};
use std::sync::Mutex;

pub fn nthreads() -> usize {
    std::env::var("VERIF_THREADS")
        .ok()
        .and_then(|s| s.parse().ok())
        .unwrap_or_else(|| std::thread::available_parallelism().map(|n| n.get()).unwrap_or(4))
        .max(1)
}

/// Splits `0..n` into chunks of `chunk` indices, runs `f(start, end)` on each
/// (in parallel) and returns the results ordered by `start`.
pub fn par_chunks<T: Send>(n: u64, chunk: u64, f: impl Fn(u64, u64) -> T + Sync) -> Vec<T> {
    let chunk = chunk.max(1);
    let nchunks = (n + chunk - 1) / chunk;
    let next = AtomicU64::new(0);
    let results: Mutex<Vec<(u64, T)>> = Mutex::new(Vec::new());
    let workers = nthreads().min(nchunks.max(1) as usize);
    std::thread::scope(|s| {
        for _ in 0..workers {
            s.spawn(|| {
                crate::dec::install_quiet_panic_hook_once();
                loop {
                    let c = next.fetch_add(1, Ordering::Relaxed);
                    if c >= nchunks {
                        break;
                    }
                    let start = c * chunk;
                    let end = (start + chunk).min(n);
                    let r = f(start, end);
                    results.lock().unwrap().push((c, r));
                }
            });
        }
    });
    let mut v = results.into_inner().unwrap();
    v.sort_by_key(|x| x.0);
    v.into_iter().map(|x| x.1).collect()
}

/// Parallel map over a slice, results in input order.
pub fn par_map<I: Sync, T: Send>(items: &[I], chunk: usize, f: impl Fn(&I) -> T + Sync) -> Vec<T> {
    let res = par_chunks(items.len() as u64, chunk as u64, |a, b| {
        items[a as usize..b as usize].iter().map(&f).collect::<Vec<T>>()
    });
    res.into_iter().flatten().collect()
}
