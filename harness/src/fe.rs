//! The decoding front-ends of sml-rs, each reduced to the list of results it
//! reports for a byte stream: push `Decoder` + `finalize`, `decode`,
//! `decode_streaming`, and `SmlReader` over slice / iterator / `io::Read`.
use crate::dec::{guarded, BufKind, BufVisitor};
use sml_rs::transport::{decode, decode_streaming, DecodeErr, Decoder, ReadDecodedError};
use sml_rs::util::{ArrayBuf, Buffer, ByteSourceErr};
use sml_rs::{DecodedBytes, SmlReader, SmlReaderBuilder};

#[derive(Clone, Copy, PartialEq, Eq, Debug, Hash, PartialOrd, Ord)]
pub enum IoK {
    Eof,
    WouldBlock,
    Other,
}
#[derive(Clone, PartialEq, Eq, Debug)]
pub enum Ev {
    Msg(Vec<u8>),
    Dec(DecodeErr),
    Io(IoK, usize),
    Panic(String),
    /// the front-end did not come to an end within its call budget
    Hang,
    /// an item was produced after the front-end had signalled the end
    AfterEnd(String),
}
impl Ev {
    pub fn short(&self) -> String {
        match self {
            Ev::Msg(m) => format!("Ok({})", crate::json::hex(m)),
            Ev::Dec(e) => format!("{:?}", e),
            Ev::Io(k, n) => format!("IoErr({:?},{})", k, n),
            Ev::Panic(p) => format!("PANIC({})", p),
            Ev::Hang => "HANG".into(),
            Ev::AfterEnd(s) => format!("AFTER-END({})", s),
        }
    }
}
pub fn evs_short(v: &[Ev]) -> String {
    let mut s = String::from("[");
    for (i, e) in v.iter().enumerate() {
        if i > 0 {
            s.push_str(", ");
        }
        s.push_str(&e.short());
    }
    s.push(']');
    s
}

#[derive(Clone, Debug)]
pub struct FeTrace {
    pub name: &'static str,
    pub events: Vec<Ev>,
    /// number of bytes consumed when each event was reported (where observable)
    pub pos: Option<Vec<usize>>,
    /// push decoder only: `Some(n)` if `finalize()` reported `DiscardedBytes(n)` (the last event)
    pub finalize_n: Option<usize>,
}
impl FeTrace {
    pub fn is_reader(&self) -> bool {
        self.name.starts_with("SmlReader")
    }
    /// Events with the front-end specific representation of leftover bytes
    /// (`IoErr(Eof, n)` at the very end) mapped to `DiscardedBytes(n)`.
    pub fn normalized(&self) -> Vec<Ev> {
        let mut v = self.events.clone();
        if let Some(Ev::Io(IoK::Eof, n)) = v.last().cloned() {
            v.pop();
            v.push(Ev::Dec(DecodeErr::DiscardedBytes(n)));
        }
        v
    }
}

pub trait MkBuilder: Buffer + Sized {
    fn builder() -> SmlReaderBuilder<Self>;
}
impl<const N: usize> MkBuilder for ArrayBuf<N> {
    fn builder() -> SmlReaderBuilder<Self> {
        SmlReader::with_static_buffer::<N>()
    }
}
impl MkBuilder for Vec<u8> {
    fn builder() -> SmlReaderBuilder<Self> {
        SmlReader::with_vec_buffer()
    }
}

pub fn iok<E: ByteSourceErr>(e: &E) -> IoK {
    if e.is_eof() {
        IoK::Eof
    } else if e.is_would_block() {
        IoK::WouldBlock
    } else {
        IoK::Other
    }
}
pub fn conv_read<E: ByteSourceErr>(r: Result<&[u8], ReadDecodedError<E>>) -> Ev {
    match r {
        Ok(m) => Ev::Msg(m.to_vec()),
        Err(ReadDecodedError::DecodeErr(e)) => Ev::Dec(e),
        Err(ReadDecodedError::IoErr(e, n)) => Ev::Io(iok(&e), n),
    }
}

/// Push decoder: `push_byte` for every byte, then `finalize`.
pub fn fe_push<B: Buffer>(s: &[u8]) -> FeTrace {
    let mut events = vec![];
    let mut pos = vec![];
    let mut finalize_n = None;
    let r = guarded(|| {
        let mut d = Decoder::<B>::new();
        for (i, &b) in s.iter().enumerate() {
            match d.push_byte(b) {
                Ok(None) => {}
                Ok(Some(m)) => {
                    events.push(Ev::Msg(m.to_vec()));
                    pos.push(i + 1);
                }
                Err(e) => {
                    events.push(Ev::Dec(e));
                    pos.push(i + 1);
                }
            }
        }
        if let Some(e) = d.finalize() {
            if let DecodeErr::DiscardedBytes(n) = e {
                finalize_n = Some(n);
            }
            events.push(Ev::Dec(e));
            pos.push(s.len());
        }
        // a second finalize must find nothing pending
        if let Some(e) = d.finalize() {
            events.push(Ev::AfterEnd(format!("{:?}", e)));
            pos.push(s.len());
        }
    });
    if let Err(p) = r {
        events.push(Ev::Panic(p));
        pos.push(s.len());
    }
    FeTrace { name: "Decoder::push_byte+finalize", events, pos: Some(pos), finalize_n }
}

/// Push decoder constructed with `Decoder::from_buf` from a buffer that still holds bytes of an
/// earlier use (as many as fit): must behave exactly like `Decoder::new()`.
pub fn fe_push_from_buf<B: Buffer>(s: &[u8]) -> FeTrace {
    let mut events = vec![];
    let mut pos = vec![];
    let r = guarded(|| {
        let mut b = B::default();
        for k in 0..5u8 {
            if b.push(0xe0 | k).is_err() {
                break;
            }
        }
        let mut d = Decoder::<B>::from_buf(b);
        for (i, &x) in s.iter().enumerate() {
            match d.push_byte(x) {
                Ok(None) => {}
                Ok(Some(m)) => {
                    events.push(Ev::Msg(m.to_vec()));
                    pos.push(i + 1);
                }
                Err(e) => {
                    events.push(Ev::Dec(e));
                    pos.push(i + 1);
                }
            }
        }
        if let Some(e) = d.finalize() {
            events.push(Ev::Dec(e));
            pos.push(s.len());
        }
    });
    if let Err(p) = r {
        events.push(Ev::Panic(p));
        pos.push(s.len());
    }
    FeTrace { name: "Decoder::from_buf(used buffer)+push_byte+finalize", events, pos: Some(pos), finalize_n: None }
}

/// Push decoder obtained from `Default::default()`.
pub fn fe_push_default<B: Buffer>(s: &[u8]) -> FeTrace {
    let mut events = vec![];
    let mut pos = vec![];
    let r = guarded(|| {
        let mut d: Decoder<B> = Default::default();
        for (i, &x) in s.iter().enumerate() {
            match d.push_byte(x) {
                Ok(None) => {}
                Ok(Some(m)) => {
                    events.push(Ev::Msg(m.to_vec()));
                    pos.push(i + 1);
                }
                Err(e) => {
                    events.push(Ev::Dec(e));
                    pos.push(i + 1);
                }
            }
        }
        if let Some(e) = d.finalize() {
            events.push(Ev::Dec(e));
            pos.push(s.len());
        }
    });
    if let Err(p) = r {
        events.push(Ev::Panic(p));
        pos.push(s.len());
    }
    FeTrace { name: "Decoder::default()+push_byte+finalize", events, pos: Some(pos), finalize_n: None }
}

/// `transport::decode` (always `Vec`).
pub fn fe_decode(s: &[u8]) -> FeTrace {
    let mut events = vec![];
    match guarded(|| decode(s)) {
        Ok(v) => {
            for r in v {
                events.push(match r {
                    Ok(m) => Ev::Msg(m),
                    Err(e) => Ev::Dec(e),
                })
            }
        }
        Err(p) => events.push(Ev::Panic(p)),
    }
    FeTrace { name: "decode", events, pos: None, finalize_n: None }
}

struct CountIter<'a> {
    s: &'a [u8],
    i: &'a std::cell::Cell<usize>,
}
impl<'a> Iterator for CountIter<'a> {
    type Item = u8;
    fn next(&mut self) -> Option<u8> {
        let k = self.i.get();
        if k < self.s.len() {
            self.i.set(k + 1);
            Some(self.s[k])
        } else {
            None
        }
    }
}

/// `decode_streaming::<B>` over a counting iterator; `next` until `None`, then twice more.
pub fn fe_decode_streaming<B: Buffer>(s: &[u8]) -> FeTrace {
    let mut events = vec![];
    let mut pos = vec![];
    let cnt = std::cell::Cell::new(0usize);
    let r = guarded(|| {
        let mut it = decode_streaming::<B>(CountIter { s, i: &cnt });
        let mut calls = 0;
        loop {
            calls += 1;
            if calls > s.len() + 8 {
                events.push(Ev::Hang);
                pos.push(cnt.get());
                break;
            }
            match it.next() {
                None => break,
                Some(Ok(m)) => events.push(Ev::Msg(m.to_vec())),
                Some(Err(e)) => events.push(Ev::Dec(e)),
            }
            pos.push(cnt.get());
        }
        for _ in 0..2 {
            if let Some(x) = it.next() {
                events.push(Ev::AfterEnd(format!("{:?}", x.map(|m| m.to_vec()))));
                pos.push(cnt.get());
            }
        }
    });
    if let Err(p) = r {
        events.push(Ev::Panic(p));
        pos.push(cnt.get());
    }
    FeTrace { name: "decode_streaming", events, pos: Some(pos), finalize_n: None }
}

macro_rules! drain_reader {
    ($reader:expr, $len:expr, $events:expr) => {{
        let mut calls = 0usize;
        loop {
            calls += 1;
            if calls > $len + 8 {
                $events.push(Ev::Hang);
                break;
            }
            match $reader.next::<DecodedBytes>() {
                None => break,
                Some(r) => $events.push(conv_read(r)),
            }
        }
        for _ in 0..2 {
            if let Some(x) = $reader.next::<DecodedBytes>() {
                $events.push(Ev::AfterEnd(conv_read(x).short()));
            }
        }
    }};
}

pub fn fe_reader_slice<B: MkBuilder>(s: &[u8]) -> FeTrace {
    let mut events = vec![];
    if let Err(p) = guarded(|| {
        let mut r = B::builder().from_slice(s);
        drain_reader!(r, s.len(), events);
    }) {
        events.push(Ev::Panic(p));
    }
    FeTrace { name: "SmlReader(slice)", events, pos: None, finalize_n: None }
}
pub fn fe_reader_iter_val<B: MkBuilder>(s: &[u8]) -> FeTrace {
    let mut events = vec![];
    let mut pos = vec![];
    let cnt = std::cell::Cell::new(0usize);
    if let Err(p) = guarded(|| {
        let mut r = B::builder().from_iterator(CountIter { s, i: &cnt });
        let mut calls = 0usize;
        loop {
            calls += 1;
            if calls > s.len() + 8 {
                events.push(Ev::Hang);
                pos.push(cnt.get());
                break;
            }
            match r.next::<DecodedBytes>() {
                None => break,
                Some(x) => {
                    events.push(conv_read(x));
                    pos.push(cnt.get());
                }
            }
        }
        for _ in 0..2 {
            if let Some(x) = r.next::<DecodedBytes>() {
                events.push(Ev::AfterEnd(conv_read(x).short()));
                pos.push(cnt.get());
            }
        }
    }) {
        events.push(Ev::Panic(p));
        pos.push(cnt.get());
    }
    FeTrace { name: "SmlReader(iterator by value)", events, pos: Some(pos), finalize_n: None }
}
pub fn fe_reader_iter_ref<B: MkBuilder>(s: &[u8]) -> FeTrace {
    let mut events = vec![];
    if let Err(p) = guarded(|| {
        let mut r = B::builder().from_iterator(s.iter());
        drain_reader!(r, s.len(), events);
    }) {
        events.push(Ev::Panic(p));
    }
    FeTrace { name: "SmlReader(iterator by reference)", events, pos: None, finalize_n: None }
}
pub fn fe_reader_cursor<B: MkBuilder>(s: &[u8]) -> FeTrace {
    let mut events = vec![];
    if let Err(p) = guarded(|| {
        let mut r = B::builder().from_reader(std::io::Cursor::new(s));
        drain_reader!(r, s.len(), events);
    }) {
        events.push(Ev::Panic(p));
    }
    FeTrace { name: "SmlReader(io::Cursor)", events, pos: None, finalize_n: None }
}
/// An `io::Read` that hands out at most one byte per call even for larger buffers.
pub struct OneByteRead<'a> {
    pub s: &'a [u8],
    pub i: usize,
}
impl<'a> std::io::Read for OneByteRead<'a> {
    fn read(&mut self, buf: &mut [u8]) -> std::io::Result<usize> {
        if buf.is_empty() || self.i >= self.s.len() {
            return Ok(0);
        }
        buf[0] = self.s[self.i];
        self.i += 1;
        Ok(1)
    }
}
pub fn fe_reader_onebyte<B: MkBuilder>(s: &[u8]) -> FeTrace {
    let mut events = vec![];
    if let Err(p) = guarded(|| {
        let mut r = B::builder().from_reader(OneByteRead { s, i: 0 });
        drain_reader!(r, s.len(), events);
    }) {
        events.push(Ev::Panic(p));
    }
    FeTrace { name: "SmlReader(one-byte io::Read)", events, pos: None, finalize_n: None }
}

/// An `embedded_hal::serial::Read` over a slice. It has no notion of end of input: once the bytes
/// are used up it answers with an error value (which the reader must report together with the
/// pending byte count - the counterpart of the end-of-file error of the other sources).
pub struct EhSlice<'a> {
    pub s: &'a [u8],
    pub i: usize,
}
impl<'a> embedded_hal::serial::Read<u8> for EhSlice<'a> {
    type Error = u8;
    fn read(&mut self) -> nb::Result<u8, u8> {
        if self.i < self.s.len() {
            self.i += 1;
            Ok(self.s[self.i - 1])
        } else {
            Err(nb::Error::Other(0xee))
        }
    }
}
macro_rules! drain_eh_reader {
    ($reader:expr, $len:expr, $events:expr) => {{
        let mut calls = 0usize;
        loop {
            calls += 1;
            if calls > $len + 8 {
                $events.push(Ev::Hang);
                break;
            }
            match $reader.next::<DecodedBytes>() {
                None => {
                    $events.push(Ev::AfterEnd("None from a source that never signals end of input".into()));
                    break;
                }
                Some(r) => match conv_read(r) {
                    // the source's error value at the end of the bytes: same role as end of file
                    Ev::Io(IoK::Other, 0) => break,
                    Ev::Io(IoK::Other, n) => {
                        $events.push(Ev::Io(IoK::Eof, n));
                        break;
                    }
                    e => $events.push(e),
                },
            }
        }
        for _ in 0..2 {
            match $reader.next::<DecodedBytes>().map(conv_read) {
                Some(Ev::Io(IoK::Other, 0)) => {}
                Some(x) => $events.push(Ev::AfterEnd(x.short())),
                None => $events.push(Ev::AfterEnd("None".into())),
            }
        }
    }};
}
pub fn fe_reader_eh<B: MkBuilder>(s: &[u8]) -> FeTrace {
    let mut events = vec![];
    if let Err(p) = guarded(|| {
        let mut r = B::builder().from_eh_reader(EhSlice { s, i: 0 });
        drain_eh_reader!(r, s.len(), events);
    }) {
        events.push(Ev::Panic(p));
    }
    FeTrace { name: "SmlReader(embedded-hal serial)", events, pos: None, finalize_n: None }
}

/// An `io::Read` that hands out chunks of varying size (cycling through `pattern`, never more than
/// the caller asks for) and reports `Interrupted` before every `intr`-th successful read - all of
/// which `Read`'s contract allows and none of which may change a single result.
pub struct ChunkedRead<'a> {
    pub s: &'a [u8],
    pub i: usize,
    pub pattern: &'static [usize],
    pub k: usize,
    pub intr: usize,
    pub calls: usize,
}
impl<'a> std::io::Read for ChunkedRead<'a> {
    fn read(&mut self, buf: &mut [u8]) -> std::io::Result<usize> {
        self.calls += 1;
        if self.intr > 0 && self.calls % self.intr == 0 {
            return Err(std::io::Error::new(std::io::ErrorKind::Interrupted, "intr"));
        }
        if buf.is_empty() || self.i >= self.s.len() {
            return Ok(0);
        }
        let want = self.pattern[self.k % self.pattern.len()];
        self.k += 1;
        let n = want.min(buf.len()).min(self.s.len() - self.i).max(1);
        buf[..n].copy_from_slice(&self.s[self.i..self.i + n]);
        self.i += n;
        Ok(n)
    }
}
pub const CHUNK_PATTERNS: [(&str, &[usize], usize); 4] = [
    ("SmlReader(io::Read, chunks 40/64/64)", &[40, 64, 64], 0),
    ("SmlReader(io::Read, chunks 7/64/3/100)", &[7, 64, 3, 100], 0),
    ("SmlReader(io::Read, chunks 63/1/65)", &[63, 1, 65], 0),
    ("SmlReader(io::Read, interrupted before every 2nd read)", &[1, 5, 64], 2),
];
pub fn fe_reader_chunked<B: MkBuilder>(s: &[u8], which: usize) -> FeTrace {
    let (name, pattern, intr) = CHUNK_PATTERNS[which];
    let mut events = vec![];
    if let Err(p) = guarded(|| {
        let mut r = B::builder().from_reader(ChunkedRead { s, i: 0, pattern, k: 0, intr, calls: 0 });
        drain_reader!(r, s.len(), events);
    }) {
        events.push(Ev::Panic(p));
    }
    FeTrace { name, events, pos: None, finalize_n: None }
}

/// The bytes of `s` through an iterator whose `size_hint` is `(0, Some(usize::MAX))` - legal, and
/// a front-end that sizes anything from the hint must cope with it.
pub fn hinted(s: &[u8]) -> impl Iterator<Item = u8> + '_ {
    (0..usize::MAX).map_while(move |i| s.get(i).copied())
}
pub fn fe_decode_hinted(s: &[u8]) -> FeTrace {
    let mut events = vec![];
    match guarded(|| decode(hinted(s))) {
        Ok(v) => {
            for r in v {
                events.push(match r {
                    Ok(m) => Ev::Msg(m),
                    Err(e) => Ev::Dec(e),
                })
            }
        }
        Err(p) => events.push(Ev::Panic(p)),
    }
    FeTrace { name: "decode(iterator with size_hint (0, usize::MAX))", events, pos: None, finalize_n: None }
}
pub fn fe_streaming_hinted<B: MkBuilder>(s: &[u8]) -> Vec<FeTrace> {
    let mut out = vec![];
    {
        let mut events = vec![];
        if let Err(p) = guarded(|| {
            let mut it = decode_streaming::<B>(hinted(s));
            let mut calls = 0;
            loop {
                calls += 1;
                if calls > s.len() + 8 {
                    events.push(Ev::Hang);
                    break;
                }
                match it.next() {
                    None => break,
                    Some(Ok(m)) => events.push(Ev::Msg(m.to_vec())),
                    Some(Err(e)) => events.push(Ev::Dec(e)),
                }
            }
        }) {
            events.push(Ev::Panic(p));
        }
        out.push(FeTrace { name: "decode_streaming(iterator with size_hint (0, usize::MAX))", events, pos: None, finalize_n: None });
    }
    {
        let mut events = vec![];
        if let Err(p) = guarded(|| {
            let mut r = B::builder().from_iterator(hinted(s));
            drain_reader!(r, s.len(), events);
        }) {
            events.push(Ev::Panic(p));
        }
        out.push(FeTrace { name: "SmlReader(iterator with size_hint (0, usize::MAX))", events, pos: None, finalize_n: None });
    }
    out
}

/// Which front-ends to run.
#[derive(Clone, Copy, PartialEq, Eq, Debug)]
pub enum FeSet {
    /// push decoder, decode_streaming, SmlReader(slice), Decoder::from_buf(used buffer)
    Core,
    /// all seven (decode only with Vec)
    All,
}

pub struct RunFes<'a> {
    pub s: &'a [u8],
    pub set: FeSet,
    pub is_vec: bool,
}
impl<'a> BufVisitor for RunFes<'a> {
    type Out = Vec<FeTrace>;
    fn visit<B: Buffer + MkBuilder + Send + 'static>(self) -> Vec<FeTrace> {
        let s = self.s;
        let mut v = vec![fe_push::<B>(s), fe_decode_streaming::<B>(s), fe_reader_slice::<B>(s), fe_push_from_buf::<B>(s)];
        if self.set == FeSet::All {
            if self.is_vec {
                v.push(fe_decode(s));
                v.push(fe_decode_hinted(s));
            }
            v.extend(fe_streaming_hinted::<B>(s));
            v.push(fe_reader_iter_val::<B>(s));
            v.push(fe_reader_iter_ref::<B>(s));
            v.push(fe_reader_cursor::<B>(s));
            v.push(fe_reader_onebyte::<B>(s));
            v.push(fe_push_default::<B>(s));
            v.push(fe_reader_eh::<B>(s));
            for w in 0..CHUNK_PATTERNS.len() {
                v.push(fe_reader_chunked::<B>(s, w));
            }
        }
        v
    }
}
/// Runs the selected front-ends with buffer `kind` on stream `s`.
pub fn run_frontends(kind: BufKind, s: &[u8], set: FeSet) -> Vec<FeTrace> {
    crate::dec::with_buf(kind, RunFes { s, set, is_vec: kind == BufKind::Vec })
        .unwrap_or_else(|| crate::report::machinery(&format!("capacity {:?} not instantiated", kind)))
}

/// The default-buffer (8 KiB `ArrayBuf`) constructors of `SmlReader`.
pub fn run_default_readers(s: &[u8]) -> Vec<FeTrace> {
    let mut out = vec![];
    {
        let mut events = vec![];
        if let Err(p) = guarded(|| {
            let mut r = SmlReader::from_slice(s);
            drain_reader!(r, s.len(), events);
        }) {
            events.push(Ev::Panic(p));
        }
        out.push(FeTrace { name: "SmlReader::from_slice (default 8 KiB)", events, pos: None, finalize_n: None });
    }
    {
        let mut events = vec![];
        if let Err(p) = guarded(|| {
            let mut r = SmlReader::from_iterator(s.iter().copied());
            drain_reader!(r, s.len(), events);
        }) {
            events.push(Ev::Panic(p));
        }
        out.push(FeTrace { name: "SmlReader::from_iterator (default 8 KiB)", events, pos: None, finalize_n: None });
    }
    {
        let mut events = vec![];
        if let Err(p) = guarded(|| {
            let mut r = SmlReader::from_reader(std::io::Cursor::new(s));
            drain_reader!(r, s.len(), events);
        }) {
            events.push(Ev::Panic(p));
        }
        out.push(FeTrace { name: "SmlReader::from_reader (default 8 KiB)", events, pos: None, finalize_n: None });
    }
    {
        let mut events = vec![];
        if let Err(p) = guarded(|| {
            let mut r = SmlReader::from_eh_reader(EhSlice { s, i: 0 });
            drain_eh_reader!(r, s.len(), events);
        }) {
            events.push(Ev::Panic(p));
        }
        out.push(FeTrace { name: "SmlReader::from_eh_reader (default 8 KiB)", events, pos: None, finalize_n: None });
    }
    out
}
