//! Engine E1 — explicit-state exploration of the product
//! (real `Decoder<B>` state) x (monitor state) under an operation alphabet of
//! bytes, state-adaptive checksum bytes, macro symbols, `finalize` and `reset`
//! (DESIGN §3-§5). Breadth-first by symbol depth, exact-state deduplication on the
//! full hook snapshot plus the full monitor state, deterministic parallel
//! expansion. Serves C02, C05, C08, C14, C17.
use crate::dec::{new_dec, BufKind, Dec, Out};
use crate::json::J;
use crate::mon::{Finding, Mon, StepKind};
use crate::par::par_chunks;
use crate::refm::{canon, crc_x25, START};
use crate::report::{finish, machinery, Counts, Ctx, Tally, Tier, Viol};
use crate::dec::Snap as DecoderSnapshot;
use std::collections::{HashMap, HashSet};
use std::hash::{BuildHasherDefault, Hasher};

// ------------------------------------------------------------------ symbols
#[derive(Clone, Copy, PartialEq, Eq, Hash, Debug, PartialOrd, Ord)]
pub enum Sym {
    B(u8),
    Clo,
    Chi,
    Esc,
    Som,
    Tail(u8),
    TailX,
    Fin,
    Reset,
    Run(u8, u64),
    /// whole canonical frame (reference checksum) of payload kind 0: empty, 1: `55`, 2: `0000`
    Frame(u8),
    /// well-checksummed frame `START 55555555 ESC 1a k crc` declaring k pad bytes that are not there
    PadLie(u8),
}
impl Sym {
    pub fn token(self) -> String {
        match self {
            Sym::B(b) => format!("{:02x}", b),
            Sym::Clo => "CLO".into(),
            Sym::Chi => "CHI".into(),
            Sym::Esc => "ESC".into(),
            Sym::Som => "SOM".into(),
            Sym::Tail(p) => format!("TAIL{}", p),
            Sym::TailX => "TAILX".into(),
            Sym::Fin => "FIN".into(),
            Sym::Reset => "RESET".into(),
            Sym::Run(b, n) => format!("RUN({:02x},{})", b, n),
            Sym::Frame(k) => format!("FRAME{}", k),
            Sym::PadLie(k) => format!("PADLIE{}", k),
        }
    }
    pub fn parse(t: &str) -> Option<Sym> {
        Some(match t {
            "CLO" => Sym::Clo,
            "CHI" => Sym::Chi,
            "ESC" => Sym::Esc,
            "SOM" => Sym::Som,
            "TAILX" => Sym::TailX,
            "FIN" => Sym::Fin,
            "RESET" => Sym::Reset,
            _ => {
                if let Some(p) = t.strip_prefix("TAIL") {
                    Sym::Tail(p.parse().ok()?)
                } else if let Some(p) = t.strip_prefix("FRAME") {
                    Sym::Frame(p.parse().ok()?)
                } else if let Some(p) = t.strip_prefix("PADLIE") {
                    Sym::PadLie(p.parse().ok()?)
                } else if let Some(r) = t.strip_prefix("RUN(") {
                    let r = r.strip_suffix(')')?;
                    let (b, n) = r.split_once(',')?;
                    Sym::Run(u8::from_str_radix(b, 16).ok()?, n.parse().ok()?)
                } else if t.len() == 2 {
                    Sym::B(u8::from_str_radix(t, 16).ok()?)
                } else {
                    return None;
                }
            }
        })
    }
}
pub fn path_str(p: &[Sym]) -> String {
    p.iter().map(|s| s.token()).collect::<Vec<_>>().join(" ")
}
pub fn parse_path(s: &str) -> Option<Vec<Sym>> {
    s.split_whitespace().map(Sym::parse).collect()
}

#[derive(Clone, Copy)]
pub enum Gen {
    F(u8),
    Lo,
    Hi,
    LoX,
}
fn frame_payload(k: u8) -> &'static [u8] {
    match k {
        0 => &[],
        1 => &[0x55],
        _ => &[0x00, 0x00],
    }
}
fn padlie(k: u8) -> Vec<u8> {
    let mut f = START.to_vec();
    f.extend_from_slice(&[0x55; 4]);
    f.extend_from_slice(&[0x1b, 0x1b, 0x1b, 0x1b, 0x1a, k]);
    let c = crc_x25(&f);
    f.extend_from_slice(&c.to_le_bytes());
    f
}
fn expand(s: Sym, out: &mut Vec<Gen>) {
    use Gen::*;
    out.clear();
    match s {
        Sym::B(b) => out.push(F(b)),
        Sym::Clo => out.push(Lo),
        Sym::Chi => out.push(Hi),
        Sym::Esc => out.extend_from_slice(&[F(0x1b); 4]),
        Sym::Som => out.extend_from_slice(&[F(1); 4]),
        Sym::Tail(p) => out.extend_from_slice(&[F(0x1a), F(p), Lo, Hi]),
        Sym::TailX => out.extend_from_slice(&[F(0x1a), F(0), LoX, Hi]),
        Sym::Frame(k) => out.extend(canon(frame_payload(k)).into_iter().map(F)),
        Sym::PadLie(k) => out.extend(padlie(k).into_iter().map(F)),
        Sym::Fin | Sym::Reset | Sym::Run(..) => {}
    }
}

/// The two checksum bytes that can make the implementation's comparison succeed
/// from this state: reference CRC continued from the register the hook exposes
/// over the bytes received but not yet hashed (the pending escape payload).
pub use Gen as G;
pub fn sym_gens(s: Sym) -> Vec<Gen> {
    let mut v = vec![];
    expand(s, &mut v);
    v
}

// ------------------------------------------------------------------ node
pub struct Node {
    pub dec: Box<dyn Dec>,
    pub mon: Mon,
    pub kind: BufKind,
}
thread_local! {
    static AFTER_START: std::cell::RefCell<HashMap<BufKind, DecoderSnapshot>> = std::cell::RefCell::new(HashMap::new());
}
/// Snapshot of `Decoder::new()` fed exactly one start sequence.
pub fn after_start_snapshot(kind: BufKind) -> DecoderSnapshot {
    AFTER_START.with(|c| {
        c.borrow_mut()
            .entry(kind)
            .or_insert_with(|| {
                let mut d = new_dec(kind);
                for b in START {
                    d.push(b);
                }
                d.snap()
            })
            .clone()
    })
}
#[derive(Default)]
pub struct StepInfo {
    pub findings: Vec<Finding>,
    /// boundary events that occurred during this symbol (last one matters)
    pub boundary: Option<StepKind>,
    pub kinds: Vec<StepKind>,
    pub outs: Vec<String>,
    pub want_outs: bool,
}
impl Node {
    pub fn new(kind: BufKind) -> Node {
        Node { dec: new_dec(kind), mon: Mon::new(kind.cap()), kind }
    }
    pub fn dup(&self) -> Node {
        Node { dec: self.dec.dup(), mon: self.mon.clone(), kind: self.kind }
    }
    fn byte(&mut self, b: u8, info: &mut StepInfo) -> bool {
        // a symbol ends at a boundary only if its last byte produced the boundary event
        info.boundary = None;
        let o = self.dec.push(b);
        let k = self.mon.byte(b, &o, &mut info.findings);
        if info.want_outs && o != Out::None {
            info.outs.push(o.short());
        }
        if k != StepKind::Quiet {
            info.kinds.push(k);
        }
        if k == StepKind::Start && info.findings.is_empty() {
            // M-start, second half: from here on the decoder must be the decoder `new()` + start
            // sequence. A structural difference is escalated to a behavioural comparison, so that
            // only an observable difference is ever reported.
            if !crate::dec::HOOKS_BUILT || self.dec.snap() != after_start_snapshot(self.kind) {
                let mut fresh = new_dec(self.kind);
                for b in START {
                    fresh.push(b);
                }
                if let Some(d) = crate::e1c::differs_after_start(self.dec.as_ref(), fresh.as_ref()) {
                    info.findings.push(("C08 M-start: after the start sequence the decoder behaves differently from a new decoder after a start sequence", d));
                }
            }
        }
        match k {
            StepKind::Delivered | StepKind::Rejected => info.boundary = Some(k),
            StepKind::Start | StepKind::Restart => info.boundary = None,
            _ => {}
        }
        !matches!(o, Out::Panic(_))
    }
    /// Applies one symbol; adaptive bytes are derived from `adapt` (default: this decoder).
    pub fn apply(&mut self, s: Sym, info: &mut StepInfo, gens: &mut Gen2) {
        match s {
            Sym::Fin => {
                let r = self.dec.finalize();
                if info.want_outs {
                    info.outs.push(format!("finalize={:?}", r));
                }
                let k = self.mon.finalize(&r, &mut info.findings);
                info.kinds.push(k);
                info.boundary = Some(k);
            }
            Sym::Reset => {
                let r = self.dec.reset();
                if info.want_outs {
                    info.outs.push(format!("reset={:?}", r));
                }
                let k = self.mon.reset(&r, &mut info.findings);
                info.kinds.push(k);
                info.boundary = Some(k);
            }
            Sym::Run(b, n) => {
                for _ in 0..n {
                    if !self.byte(b, info) || !info.findings.is_empty() {
                        break;
                    }
                }
            }
            _ => {
                expand(s, &mut gens.0);
                for i in 0..gens.0.len() {
                    let b = match gens.0[i] {
                        Gen::F(b) => b,
                        g => {
                            let w = self.dec.wanted();
                            match g {
                                Gen::Lo => w as u8,
                                Gen::Hi => (w >> 8) as u8,
                                _ => (w as u8).wrapping_add(1),
                            }
                        }
                    };
                    gens.1.push(b);
                    if !self.byte(b, info) {
                        break;
                    }
                }
            }
        }
    }
    /// Serialises the complete product state (decoder snapshot + monitor).
    pub fn serialize(&self, out: &mut Vec<u8>) -> DecoderSnapshot {
        let s = self.dec.snap();
        out.clear();
        out.push(s.tag);
        out.extend_from_slice(&s.num_discarded_bytes.to_le_bytes());
        out.extend_from_slice(&s.n.to_le_bytes());
        out.extend_from_slice(&s.payload);
        out.extend_from_slice(&(s.raw_msg_len as u64).to_le_bytes());
        out.extend_from_slice(&s.crc.to_le_bytes());
        out.extend_from_slice(&s.zero_cache.to_le_bytes());
        out.extend_from_slice(&(s.buf.len() as u64).to_le_bytes());
        out.extend_from_slice(&s.buf);
        out.push(self.mon.in_frame as u8);
        out.extend_from_slice(&(self.mon.unacc as u64).to_le_bytes());
        out.push(self.mon.scan);
        out.extend_from_slice(&(self.mon.frame.len() as u64).to_le_bytes());
        out.extend_from_slice(&self.mon.frame);
        // stateless fallback: the history is part of the key, so nothing is ever merged
        self.dec.hist_key(out);
        s
    }
}
/// scratch: (expanded generators, concrete bytes emitted so far on this path)
#[derive(Default)]
pub struct Gen2(Vec<Gen>, pub Vec<u8>);

fn mix64(mut h: u64) -> u64 {
    h ^= h >> 30;
    h = h.wrapping_mul(0xbf58476d1ce4e5b9);
    h ^= h >> 27;
    h = h.wrapping_mul(0x94d049bb133111eb);
    h ^ (h >> 31)
}
fn hash64(data: &[u8], seed: u64, mul: u64) -> u64 {
    let mut h = seed ^ (data.len() as u64).wrapping_mul(mul);
    let mut it = data.chunks_exact(8);
    for c in &mut it {
        let k = u64::from_le_bytes(c.try_into().unwrap());
        h = (h ^ mix64(k.wrapping_add(seed))).wrapping_mul(mul).rotate_left(29);
    }
    let r = it.remainder();
    if !r.is_empty() {
        let mut b = [0u8; 8];
        b[..r.len()].copy_from_slice(r);
        let k = u64::from_le_bytes(b) ^ ((r.len() as u64) << 56);
        h = (h ^ mix64(k.wrapping_add(seed))).wrapping_mul(mul).rotate_left(29);
    }
    mix64(h)
}
pub fn fingerprint(data: &[u8], seed: u64) -> u128 {
    let a = hash64(data, 0x9e3779b97f4a7c15 ^ seed, 0xff51afd7ed558ccd);
    let b = hash64(data, 0xc2b2ae3d27d4eb4f ^ seed.rotate_left(17), 0xc4ceb9fe1a85ec53);
    ((a as u128) << 64) | b as u128
}
#[derive(Default)]
struct IdHasher(u64);
impl Hasher for IdHasher {
    fn finish(&self) -> u64 {
        self.0
    }
    fn write(&mut self, _: &[u8]) {
        unreachable!()
    }
    fn write_u128(&mut self, i: u128) {
        self.0 = i as u64;
    }
}
type FpSet = HashSet<u128, BuildHasherDefault<IdHasher>>;
const NSHARDS: usize = 256;
fn shard_of(fp: u128) -> usize {
    ((fp >> 64) as u64 % NSHARDS as u64) as usize
}

// ------------------------------------------------------------------ exploration
pub struct Cfg {
    pub kind: BufKind,
    pub alphabet: Vec<Sym>,
    pub depth: usize,
    pub roots: Vec<Vec<Sym>>,
    /// do not expand states in which the monitor is inside a frame (idle-phase exploration, C08a)
    pub idle_only: bool,
    /// collect distinct boundary snapshots with a witness path
    pub collect_boundaries: bool,
    /// class prefixes this check reports
    pub report: Vec<&'static str>,
    pub prop: String,
    pub seed: u64,
    pub rss_cap_states: u64,
}
#[derive(Default)]
pub struct Explored {
    pub states: u64,
    pub transitions: u64,
    pub per_depth: Vec<u64>,
    pub counts: Counts,
    pub tally: Tally,
    pub other_findings: Counts,
    pub boundaries: Vec<(DecoderSnapshot, Vec<Sym>)>,
    pub boundaries_dropped: u64,
    pub completed_depth: usize,
    pub capped: Option<String>,
    pub merged: u64,
    pub samples: Vec<String>,
}

struct Cand {
    fp: u128,
    pidx: u32,
    sym: u16,
}
struct ChunkOut {
    cands: Vec<Vec<Cand>>,
    viols: Vec<Viol>,
    counts: Counts,
    other: Counts,
    bounds: Vec<(DecoderSnapshot, u32, u16)>,
    transitions: u64,
}

pub fn rebuild(kind: BufKind, path: &[Sym]) -> (Node, Vec<Finding>) {
    let mut n = Node::new(kind);
    let mut g = Gen2::default();
    let mut all = vec![];
    for &s in path {
        let mut info = StepInfo::default();
        n.apply(s, &mut info, &mut g);
        all.extend(info.findings);
    }
    (n, all)
}

fn e1_viol(cfg_kind: BufKind, class: &str, what: String, path: &[Sym], bytes: &[u8]) -> Viol {
    Viol {
        class: class.to_string(),
        key: format!("{}:{}", cfg_kind.name(), path_str(path).replace(' ', ",")),
        what: format!("{} ; concrete bytes of the path: {}", what, crate::json::hex(&bytes[..bytes.len().min(96)])),
        case: J::obj().set("engine", "e1").set("mode", "path").set("buf", cfg_kind.name()).set("path", path_str(path)),
        size: path.len() * 1000 + bytes.len().min(999),
    }
}

pub fn count_kinds(kinds: &[StepKind], findings_empty: bool, c: &mut Counts) {
    if !findings_empty {
        return;
    }
    for k in kinds {
        c.inc(match k {
            StepKind::Start => "start sequences detected",
            StepKind::Delivered => "frames delivered",
            StepKind::Restart => "in-frame restarts",
            StepKind::Rejected => "frames rejected",
            StepKind::Finalized => "finalize calls",
            StepKind::Reset => "reset calls",
            StepKind::Quiet => "quiet",
        });
    }
}

/// Frontier entry: root index followed by `level` symbol indices (one byte each).
struct Frontier {
    stride: usize,
    data: Vec<u8>,
}
impl Frontier {
    fn len(&self) -> usize {
        self.data.len() / self.stride
    }
    fn get(&self, i: usize) -> &[u8] {
        &self.data[i * self.stride..(i + 1) * self.stride]
    }
}
fn entry_path(cfg: &Cfg, e: &[u8]) -> Vec<Sym> {
    let mut p = cfg.roots[e[0] as usize].clone();
    p.extend(e[1..].iter().map(|&i| cfg.alphabet[i as usize]));
    p
}

pub const STATELESS_BOUNDARY_CAP: usize = 4000;
pub fn explore(cfg: &Cfg, ctx: &Ctx) -> Explored {
    let mut ex = Explored::default();
    let mut seen: Vec<FpSet> = (0..NSHARDS).map(|_| FpSet::default()).collect();
    let mut frontier = Frontier { stride: 1, data: vec![] };
    let mut scratch = vec![];
    let mut bound_seen: HashMap<DecoderSnapshot, ()> = HashMap::new();
    assert!(cfg.roots.len() < 256 && cfg.alphabet.len() < 256);
    for (ri, r) in cfg.roots.iter().enumerate() {
        let (n, f) = rebuild(cfg.kind, r);
        if !f.is_empty() {
            // a root path that already violates is reported by the exploration that reaches it
            continue;
        }
        n.serialize(&mut scratch);
        let fp = fingerprint(&scratch, cfg.seed);
        if seen[shard_of(fp)].insert(fp) {
            frontier.data.push(ri as u8);
            ex.states += 1;
        }
    }
    ex.per_depth.push(ex.states);
    let nsym = cfg.alphabet.len();
    const BATCH: usize = 1 << 21;
    const CHUNK: u64 = 2048;
    let timing = std::env::var("VERIF_TIMING").is_ok();
    for depth in 1..=cfg.depth {
        let last_level = depth == cfg.depth;
        let mut next = Frontier { stride: frontier.stride + 1, data: vec![] };
        let mut new_states = 0u64;
        let nparents = frontier.len();
        let mut b0 = 0usize;
        while b0 < nparents {
            let b1 = (b0 + BATCH).min(nparents);
            let t0 = std::time::Instant::now();
            // phase 1 (parallel over parents): expand, check, fingerprint; candidates pre-bucketed by shard
            let outs = par_chunks((b1 - b0) as u64, CHUNK, |a, b| {
                let mut co = ChunkOut {
                    cands: (0..NSHARDS).map(|_| Vec::new()).collect(),
                    viols: vec![],
                    counts: Counts::default(),
                    other: Counts::default(),
                    bounds: vec![],
                    transitions: 0,
                };
                let mut ser = vec![];
                let mut g = Gen2::default();
                for pi in a..b {
                    let entry = frontier.get(b0 + pi as usize);
                    let mut g0 = Gen2::default();
                    let mut parent = Node::new(cfg.kind);
                    for &s in cfg.roots[entry[0] as usize].iter().chain(entry[1..].iter().map(|&i| &cfg.alphabet[i as usize])) {
                        let mut info = StepInfo::default();
                        parent.apply(s, &mut info, &mut g0);
                    }
                    if cfg.idle_only && parent.mon.in_frame {
                        continue;
                    }
                    for (si, &s) in cfg.alphabet.iter().enumerate() {
                        let mut child = parent.dup();
                        let mut info = StepInfo::default();
                        g.1.clear();
                        child.apply(s, &mut info, &mut g);
                        co.transitions += 1;
                        count_kinds(&info.kinds, info.findings.is_empty(), &mut co.counts);
                        if !info.findings.is_empty() {
                            let mut np = entry_path(cfg, entry);
                            np.push(s);
                            let mut reported = false;
                            for (class, what) in &info.findings {
                                if cfg.report.iter().any(|p| class.starts_with(p)) {
                                    let mut all = g0.1.clone();
                                    all.extend_from_slice(&g.1);
                                    co.viols.push(e1_viol(cfg.kind, class, what.clone(), &np, &all));
                                    reported = true;
                                } else {
                                    co.other.inc(class);
                                }
                            }
                            // A boundary reached by a transition on which only *another* property's rule
                            // fired (e.g. a wrong count returned by finalize) is still a boundary state whose
                            // freshness C14 must examine; it is collected but not expanded.
                            let desync = info.findings.iter().any(|(c, _)| crate::mon::is_desync(c));
                            if cfg.collect_boundaries && info.boundary.is_some() && !reported && desync {
                                let snap = child.serialize(&mut ser);
                                co.bounds.push((snap, pi as u32, si as u16));
                            }
                            // this check's own findings end the path; so does a finding after which monitor
                            // and decoder are out of step. Other properties' findings are left to their own
                            // checks and exploration goes on.
                            if reported || desync {
                                continue;
                            }
                        }
                        let snap = child.serialize(&mut ser);
                        if cfg.collect_boundaries && info.boundary.is_some() {
                            co.bounds.push((snap, pi as u32, si as u16));
                        }
                        let fp = fingerprint(&ser, cfg.seed);
                        co.cands[shard_of(fp)].push(Cand { fp, pidx: pi as u32, sym: si as u16 });
                    }
                }
                co
            });
            let t1 = t0.elapsed();
            let mut cand_chunks: Vec<Vec<Vec<Cand>>> = Vec::with_capacity(outs.len());
            for co in outs {
                ex.transitions += co.transitions;
                ex.counts.merge(&co.counts);
                ex.other_findings.merge(&co.other);
                for v in co.viols {
                    ex.tally.add(v);
                }
                for (snap, pi, si) in co.bounds {
                    let mut np = entry_path(cfg, frontier.get(b0 + pi as usize));
                    np.push(cfg.alphabet[si as usize]);
                    // without a usable snapshot every boundary path is its own boundary state; the
                    // first STATELESS_BOUNDARY_CAP of them (breadth-first order) are examined
                    let key = if crate::dec::hooks_complete() {
                        snap.clone()
                    } else {
                        if ex.boundaries.len() >= STATELESS_BOUNDARY_CAP {
                            ex.boundaries_dropped += 1;
                            continue;
                        }
                        let mut k = DecoderSnapshot::opaque();
                        k.buf = path_str(&np).into_bytes();
                        k
                    };
                    if bound_seen.insert(key, ()).is_none() {
                        ex.boundaries.push((snap, np));
                    }
                }
                cand_chunks.push(co.cands);
            }
            // phase 2 (parallel over shards): insert in (chunk, parent, symbol) order -> deterministic winners
            let cand_chunks = &cand_chunks;
            let nthreads = crate::par::nthreads();
            let mut groups: Vec<Vec<(usize, &mut FpSet)>> = (0..nthreads).map(|_| vec![]).collect();
            for (i, set) in seen.iter_mut().enumerate() {
                groups[i % nthreads].push((i, set));
            }
            let winners: Vec<(u64, Vec<(u32, u16)>)> = std::thread::scope(|sc| {
                let hs: Vec<_> = groups
                    .into_iter()
                    .map(|grp| {
                        sc.spawn(move || {
                            let mut w = vec![];
                            let mut n = 0u64;
                            for (shard, set) in grp {
                                let total: usize = cand_chunks.iter().map(|c| c[shard].len()).sum();
                                set.reserve(total);
                                for chunk in cand_chunks.iter() {
                                    for c in &chunk[shard] {
                                        if set.insert(c.fp) {
                                            n += 1;
                                            if !last_level {
                                                w.push((c.pidx, c.sym));
                                            } else if w.len() < 2 {
                                                w.push((c.pidx, c.sym));
                                            }
                                        }
                                    }
                                }
                            }
                            (n, w)
                        })
                    })
                    .collect();
                hs.into_iter().map(|h| h.join().unwrap()).collect()
            });
            let t2 = t0.elapsed();
            let mut w: Vec<(u32, u16)> = vec![];
            for (n, ws) in winners {
                new_states += n;
                w.extend(ws);
            }
            w.sort_unstable();
            if !last_level {
                next.data.reserve(w.len() * next.stride);
                for (pi, si) in w {
                    next.data.extend_from_slice(frontier.get(b0 + pi as usize));
                    next.data.push(si as u8);
                }
            } else if ex.samples.len() < 6 {
                for (pi, si) in w.iter().take(3) {
                    let mut np = entry_path(cfg, frontier.get(b0 + *pi as usize));
                    np.push(cfg.alphabet[*si as usize]);
                    ex.samples.push(path_str(&np));
                }
            }
            if timing {
                eprintln!("   batch {}..{}: expand {:?}, dedup {:?}, frontier {:?}", b0, b1, t1, t2 - t1, t0.elapsed() - t2);
            }
            b0 = b1;
        }
        ex.states += new_states;
        ex.per_depth.push(new_states);
        ex.completed_depth = depth;
        ctx.log(&format!(
            "{} depth {}: +{} states (total {}), transitions {}, violations {}",
            cfg.kind.name(),
            depth,
            new_states,
            ex.states,
            ex.transitions,
            ex.tally.total()
        ));
        if !last_level && (next.len() as u64).saturating_mul(nsym as u64) + ex.states > cfg.rss_cap_states {
            ex.capped = Some(format!(
                "state cap: expanding depth {} could exceed {} states; depth {} completed fully",
                depth + 1,
                cfg.rss_cap_states,
                depth
            ));
            break;
        }
        frontier = next;
        if frontier.len() == 0 {
            break;
        }
    }
    ex.merged = ex.transitions.saturating_sub(ex.states);
    ex
}

// ------------------------------------------------------------------ alphabets
pub fn plain_bytes() -> Vec<Sym> {
    let other = match std::env::var("VERIF_ALPHA").as_deref() {
        Ok("alt") => 0xff,
        _ => 0x55,
    };
    // (02 is not interchangeable: as a pad count 2 and 3 behave differently)
    let two = 0x02;
    [0x00u8, 0x01, two, 0x1a, 0x1b, other].iter().map(|&b| Sym::B(b)).collect()
}
pub fn full_alphabet() -> Vec<Sym> {
    let mut a = plain_bytes();
    a.extend([
        Sym::Clo,
        Sym::Chi,
        Sym::Esc,
        Sym::Som,
        Sym::Tail(0),
        Sym::Tail(1),
        Sym::Tail(2),
        Sym::Tail(3),
        Sym::Tail(4),
        Sym::TailX,
        Sym::Fin,
        Sym::Reset,
    ]);
    a
}
pub fn runs() -> Vec<Sym> {
    let mut v = vec![];
    for b in [0x55u8, 0x00, 0x1b, 0x01] {
        for n in [254u64, 255, 256, 257, 65534, 65535, 65536, 65537] {
            v.push(Sym::Run(b, n));
        }
    }
    v
}

// ------------------------------------------------------------------ RUN paths (stateless DFS, no merging)
#[derive(Clone)]
pub struct RunCfg {
    pub kind: BufKind,
    pub sub: Vec<Sym>,
    pub runs: Vec<Sym>,
    pub max_len: usize,
    pub max_runs: usize,
    pub report: Vec<&'static str>,
    pub root_len: usize,
}
fn run_dfs(cfg: &RunCfg, node: &Node, path: &mut Vec<Sym>, bytes: &Gen2, used: usize, acc: &mut (Tally, Counts, Counts, u64, u64)) {
    if path.len() >= cfg.max_len + cfg.root_len {
        return;
    }
    let mut step = |s: Sym, used: usize, path: &mut Vec<Sym>, acc: &mut (Tally, Counts, Counts, u64, u64)| {
        let mut child = node.dup();
        let mut info = StepInfo::default();
        let mut g = Gen2(Vec::new(), Vec::new());
        child.apply(s, &mut info, &mut g);
        acc.3 += 1;
        path.push(s);
        if used > 0 {
            acc.4 += 1;
        }
        count_kinds(&info.kinds, info.findings.is_empty(), &mut acc.1);
        if !info.findings.is_empty() {
            for (class, what) in &info.findings {
                if cfg.report.iter().any(|p| class.starts_with(p)) {
                    acc.0.add(e1_viol(cfg.kind, class, what.clone(), path, &bytes.1));
                } else {
                    acc.2.inc(class);
                }
            }
        } else {
            run_dfs(cfg, &child, path, bytes, used, acc);
        }
        path.pop();
    };
    for &s in &cfg.sub {
        step(s, used, path, acc);
    }
    if used < cfg.max_runs {
        for &s in &cfg.runs {
            step(s, used + 1, path, acc);
        }
    }
}
/// Every path of length <= max_len over `sub` + `runs` with at most `max_runs` RUN symbols.
pub fn explore_runs(cfg: &RunCfg, root: &[Sym]) -> (Tally, Counts, Counts, u64, u64) {
    let cfg = &RunCfg { root_len: root.len(), ..cfg.clone() };
    // parallel over the first two symbols
    let mut firsts: Vec<Vec<Sym>> = vec![];
    let all: Vec<Sym> = cfg.sub.iter().chain(cfg.runs.iter()).copied().collect();
    for &a in &all {
        for &b in &all {
            let nr = [a, b].iter().filter(|s| matches!(s, Sym::Run(..))).count();
            if nr <= cfg.max_runs {
                firsts.push(vec![a, b]);
            }
        }
    }
    // length-1 paths are prefixes of the above and are checked on the way
    let parts = par_chunks(firsts.len() as u64, 1, |a, b| {
        let mut acc = (Tally::new(), Counts::default(), Counts::default(), 0u64, 0u64);
        for i in a..b {
            let p = &firsts[i as usize];
            let (mut node, _) = rebuild(cfg.kind, root);
            let mut ok = true;
            let mut path = root.to_vec();
            let bytes = Gen2::default();
            for &s in p {
                let mut info = StepInfo::default();
                let mut g = Gen2::default();
                node.apply(s, &mut info, &mut g);
                path.push(s);
                acc.3 += 1;
                count_kinds(&info.kinds, info.findings.is_empty(), &mut acc.1);
                if !info.findings.is_empty() {
                    for (class, what) in &info.findings {
                        if cfg.report.iter().any(|p| class.starts_with(p)) {
                            acc.0.add(e1_viol(cfg.kind, class, what.clone(), &path, &bytes.1));
                        } else {
                            acc.2.inc(class);
                        }
                    }
                    ok = false;
                    break;
                }
            }
            if ok {
                let used = p.iter().filter(|s| matches!(s, Sym::Run(..))).count();
                if used > 0 {
                    acc.4 += 1;
                }
                run_dfs(cfg, &node, &mut path, &bytes, used, &mut acc);
            }
        }
        acc
    });
    let mut acc = (Tally::new(), Counts::default(), Counts::default(), 0u64, 0u64);
    for p in parts {
        acc.0.merge(p.0);
        acc.1.merge(&p.1);
        acc.2.merge(&p.2);
        acc.3 += p.3;
        acc.4 += p.4;
    }
    acc
}

// ------------------------------------------------------------------ replay
pub static VERBOSE: std::sync::atomic::AtomicBool = std::sync::atomic::AtomicBool::new(false);
pub fn replay(case: &J) -> Vec<Viol> {
    let kind = case.get("buf").and_then(|b| b.as_str()).and_then(BufKind::parse).unwrap_or(BufKind::Vec);
    let path = case.get("path").and_then(|p| p.as_str()).and_then(parse_path).unwrap_or_default();
    match case.get("mode").and_then(|m| m.as_str()) {
        Some("c14") => {
            let cont = case.get("cont").and_then(|p| p.as_str()).and_then(parse_path).unwrap_or_default();
            let adapt_lhs = case.get("adapt").and_then(|a| a.as_str()) != Some("fresh");
            crate::e1c::c14_compare(kind, &path, &cont, adapt_lhs).into_iter().collect()
        }
        Some("c08b") => crate::e1c::replay_c08b(case),
        Some("giant_in_frame") => {
            return crate::e1c::giant_in_frame().into_iter().map(|(class, what)| Viol { class, key: "Vec:in-frame 2^32+5".into(), what, case: case.clone(), size: 5 }).collect();
        }
        Some("c14restart") => {
            let a = case.get("abort").and_then(|b| b.as_str()).and_then(crate::json::unhex).unwrap_or_default();
            let b = case.get("bytes").and_then(|b| b.as_str()).and_then(crate::json::unhex).unwrap_or_default();
            crate::e1c::c14_restart_one(kind, &a, &b).into_iter().collect()
        }
        Some("c14split") => {
            let b = case.get("bytes").and_then(|b| b.as_str()).and_then(crate::json::unhex).unwrap_or_default();
            let k = (case.get("split").and_then(|k| k.as_i()).unwrap_or(0) as usize).min(b.len());
            let whole = crate::fe::fe_push::<Vec<u8>>(&b).events;
            let mut cat = crate::fe::fe_push::<Vec<u8>>(&b[..k]).events;
            cat.extend(crate::fe::fe_push::<Vec<u8>>(&b[k..]).events);
            if whole != cat {
                vec![Viol {
                    class: "C14 decoding a concatenation of transmissions differs from concatenating the decodings".into(),
                    key: format!("split:{}", k),
                    what: format!("whole {} vs parts {}", crate::fe::evs_short(&whole), crate::fe::evs_short(&cat)),
                    case: case.clone(),
                    size: b.len(),
                }]
            } else {
                vec![]
            }
        }
        Some("bytes") => {
            let b = case.get("bytes").and_then(|b| b.as_str()).and_then(crate::json::unhex).unwrap_or_default();
            let r = crate::mon::mon_run(kind, &b, &[]);
            r.findings
                .into_iter()
                .map(|(class, what)| Viol { class: class.to_string(), key: format!("golden:{}", crate::json::hex(&b)), what, case: case.clone(), size: b.len() })
                .collect()
        }
        _ => {
            let mut n = Node::new(kind);
            let mut g = Gen2::default();
            let mut out = vec![];
            let mut sofar = vec![];
            for &s in &path {
                let mut info = StepInfo::default();
                info.want_outs = true;
                n.apply(s, &mut info, &mut g);
                sofar.push(s);
                if VERBOSE.load(std::sync::atomic::Ordering::Relaxed) {
                    eprintln!("    {:<14} -> {}", s.token(), if info.outs.is_empty() { "-".to_string() } else { info.outs.join(", ") });
                }
                if !info.findings.is_empty() {
                    let desync = info.findings.iter().any(|(c, _)| crate::mon::is_desync(c));
                    for (class, what) in info.findings {
                        out.push(e1_viol(kind, class, what, &sofar, &g.1));
                    }
                    // same rule as the exploration: only a finding that puts monitor and decoder out
                    // of step ends the replay; later findings on the same path are listed too
                    if desync {
                        break;
                    }
                }
            }
            out
        }
    }
}

pub fn states_json(ex: &Explored) -> J {
    J::obj()
        .set("states", ex.states)
        .set("transitions", ex.transitions)
        .set("per_depth_new_states", ex.per_depth.clone())
        .set("completed_depth", ex.completed_depth)
        .set("merged_transitions", ex.merged)
        .set("outcomes", ex.counts.to_json())
        .set("findings_of_other_properties", ex.other_findings.to_json())
        .set("capped", match &ex.capped {
            Some(c) => J::Str(c.clone()),
            None => J::Null,
        })
}

pub fn check_alloc_guard() {
    // placeholder to keep the module self-contained
}

pub fn unused(_: Tier) {}
pub fn die(msg: &str) -> ! {
    machinery(msg)
}
pub fn finish_e1(ctx: &Ctx, cov: J, assumptions: Vec<String>, tally: Tally) -> ! {
    finish(ctx, cov, assumptions, tally, &crate::replay_case)
}
