//! Engine E4 — parser enumerator (C03, C04, C06, C09, C12, C13): grammar-directed
//! exhaustive input families run through `complete::parse`, `streaming::Parser`
//! and the independent reader of `crate::sml`, under the counting allocator.
use crate::alloc::{measure, AllocStats};
use crate::dec::guarded;
use crate::json::{hex, unhex, J};
use crate::par::par_chunks;
use crate::report::{finish, machinery, Counts, Ctx, Tally, Tier, Viol};
use crate::sml::*;
use sml_rs::parser::complete;

pub type Finding = (&'static str, String);

/// C06 bound: largest single request and peak live heap while inside `complete::parse`.
pub fn mem_bound(len: usize) -> usize {
    4096 + 128 * len
}

pub struct Obs {
    pub findings: Vec<Finding>,
    pub ref_ok: bool,
    pub impl_ok: bool,
    pub alloc: AllocStats,
}

/// Runs the three readers on `x` and compares them (all rules of C03/C04/C06/C09/C13).
pub fn check_input(x: &[u8]) -> Obs {
    let mut f: Vec<Finding> = vec![];
    let r = read_file(x);
    let (c, cst) = measure(|| guarded(|| complete::parse(x).map(|f| from_complete(&f)).map_err(|e| e)));
    let s = guarded(|| run_streaming(x));
    let mut obs = Obs { findings: vec![], ref_ok: r.is_ok(), impl_ok: false, alloc: cst };
    let c = match c {
        Ok(c) => Some(c),
        Err(p) => {
            f.push(("C06 allocating parser panics", p));
            None
        }
    };
    let s = match s {
        Ok(s) => Some(s),
        Err(p) => {
            f.push(("C06 streaming parser panics", p));
            None
        }
    };
    if cst.max_request > mem_bound(x.len()) || cst.peak_live > mem_bound(x.len()) {
        f.push((
            "C06 allocating parser requests memory that is not proportional to the input",
            format!("input {} bytes: largest request {} bytes, peak live {} bytes, bound {}", x.len(), cst.max_request, cst.peak_live, mem_bound(x.len())),
        ));
    }
    if let Some(s) = &s {
        if s.alloc.calls > 0 {
            f.push(("C06 streaming parser allocates", format!("{} allocator calls, largest {}", s.alloc.calls, s.alloc.max_request)));
        }
    }
    if let Some(s) = &s {
        for (cl, d) in &s.notes {
            f.push((cl, d.clone()));
        }
    }
    if let Some(c) = &c {
        obs.impl_ok = c.is_ok();
        match (&r, c) {
            (Ok(a), Ok(b)) => {
                if a != b {
                    f.push(("C04 allocating parser returns content that differs from the independent reading", format!("reference {:?} parser {:?}", a, b)));
                }
            }
            (Err(e), Ok(b)) => f.push(("C04 allocating parser accepts what the grammar rejects", format!("reference: {:?}; parser returned {:?}", e, b))),
            (Ok(_), Err(e)) => f.push(("C03 allocating parser rejects a well-formed file", format!("parser: {:?}", e))),
            _ => {}
        }
    }
    if let Some(s) = &s {
        match (&r, &s.err) {
            (Ok(a), None) => {
                if *a != s.msgs {
                    f.push(("C04 streaming events differ from the independent reading", format!("reference {:?} events {:?}", a, s.msgs)));
                }
            }
            (Err(e), None) => f.push(("C04 streaming parser accepts what the grammar rejects", format!("reference: {:?}; events {:?}", e, s.msgs))),
            (Ok(_), Some(e)) => f.push(("C03 streaming parser rejects a well-formed file", format!("parser: {:?}", e))),
            _ => {}
        }
    }
    // What the streaming parser hands out *before* its first error must be what the independent
    // reading finds at the same grammar points: message heads (with the announced number of values,
    // which is visible before any entry or checksum is read) and the number of values.
    if let Some(s) = &s {
        let rs = ref_progress(x);
        let n = s.starts.len().min(rs.starts.len());
        if s.starts.len() > rs.starts.len() {
            f.push((
                "C04 streaming parser emits a message start the independent reading does not reach",
                format!("streaming announced {:?}, reference reaches only {:?}", s.starts, rs.starts),
            ));
        } else if s.starts[..n] != rs.starts[..n] {
            f.push((
                "C04 streaming parser emits a message start that differs from the independent reading",
                format!("streaming {:?} reference {:?}", s.starts, rs.starts),
            ));
        } else if s.n_entries > rs.n_entries {
            f.push((
                "C04 streaming parser emits more list values than the independent reading finds",
                format!("streaming {} reference {}", s.n_entries, rs.n_entries),
            ));
        }
    }
    if let (Some(c), Some(s)) = (&c, &s) {
        match (c, &s.err) {
            (Ok(a), None) => {
                if *a != s.msgs {
                    f.push(("C09 re-assembled streaming events differ from the allocating parser's file", format!("file {:?} events {:?}", a, s.msgs)));
                }
            }
            (Err(a), Some(b)) => {
                if kind(a) != kind(b) {
                    f.push(("C09 the two parsers report different error kinds", format!("allocating {} streaming {}", kind(a), kind(b))));
                }
            }
            (Ok(_), Some(b)) => f.push(("C09 streaming parser reports an error where the allocating parser succeeds", format!("streaming {}", kind(b)))),
            (Err(a), None) => f.push(("C09 allocating parser reports an error where the streaming parser succeeds", format!("allocating {}", kind(a)))),
        }
    }
    obs.findings = f;
    obs
}

fn e4_viol(class: &str, what: String, x: &[u8]) -> Viol {
    let key = if x.len() <= 96 { format!("input={}", hex(x)) } else { format!("input[len={},fnv={:016x}]", x.len(), crate::report::fnv(&hex(x))) };
    Viol { class: class.to_string(), key, what: truncate(&what, 600), case: J::obj().set("engine", "e4").set("input", hex(x)), size: x.len() }
}
fn truncate(s: &str, n: usize) -> String {
    if s.len() <= n {
        s.to_string()
    } else {
        let mut e = n;
        while !s.is_char_boundary(e) {
            e -= 1;
        }
        format!("{}...", &s[..e])
    }
}

/// Per-worker accumulator.
pub struct Acc {
    pub tally: Tally,
    pub counts: Counts,
    pub n: u64,
    pub accepted: u64,
    pub report: Vec<&'static str>,
    pub rename_c12: bool,
    pub worst_ratio: f64,
    pub samples: Vec<String>,
}
impl Acc {
    pub fn new(report: &[&'static str], rename_c12: bool) -> Acc {
        Acc { tally: Tally::new(), counts: Counts::default(), n: 0, accepted: 0, report: report.to_vec(), rename_c12, worst_ratio: 0.0, samples: vec![] }
    }
    pub fn feed(&mut self, x: &[u8], family: &str) -> Obs {
        let o = check_input(x);
        self.n += 1;
        self.counts.inc(family);
        if o.ref_ok {
            self.accepted += 1;
            self.counts.inc("inputs the independent reader accepts");
        } else {
            self.counts.inc("inputs the independent reader rejects");
        }
        if o.impl_ok {
            self.counts.inc("inputs the allocating parser accepts");
        }
        if !x.is_empty() {
            let r = o.alloc.peak_live.max(o.alloc.max_request) as f64 / x.len() as f64;
            if r > self.worst_ratio && x.len() >= 64 {
                self.worst_ratio = r;
            }
        }
        for (class, what) in &o.findings {
            // On a generated well-formed file the reference's reading *is* the abstract file that was
            // encoded (asserted by gen_family), so a content difference is a completeness failure.
            let class: &str = if family.starts_with("generated") && class.contains("differ") && class.starts_with("C04") {
                if class.contains("streaming") {
                    "C03 streaming events do not carry exactly the content of a well-formed file"
                } else {
                    "C03 allocating parser does not return exactly the content of a well-formed file"
                }
            } else {
                class
            };
            let class: String = if self.rename_c12 && (class.starts_with("C03") || class.starts_with("C04")) { format!("C12 (type-length field / primitive value) {}", &class[4..]) } else { class.to_string() };
            if self.report.iter().any(|p| class.starts_with(p)) {
                self.tally.add(e4_viol(&class, what.clone(), x));
            } else {
                self.counts.inc(&format!("other: {}", &class[..class.len().min(40)]));
            }
        }
        o
    }
    pub fn merge(&mut self, o: Acc) {
        self.tally.merge(o.tally);
        self.counts.merge(&o.counts);
        self.n += o.n;
        self.accepted += o.accepted;
        if o.worst_ratio > self.worst_ratio {
            self.worst_ratio = o.worst_ratio;
        }
        for s in o.samples {
            if self.samples.len() < 6 {
                self.samples.push(s);
            }
        }
    }
}

// ------------------------------------------------------------------ abstract file space (C03)
fn simple_entry(i: u32) -> REntry {
    REntry { obj_name: vec![1, 0, (i % 251) as u8, 8, 0, 0xff], status: None, val_time: None, unit: Some(30), scaler: Some(-1), value: RValue::U32(0x010000 + i), sig: None }
}
fn getlist(vals: Vec<REntry>) -> RMsg {
    RMsg {
        tid: vec![0x0a, 0x0b, 0x0c],
        group: 0,
        abort: 0,
        body: RBody::GetList { client_id: None, server_id: vec![9, 8, 7, 6, 5], list_name: None, act_sensor_time: Some(RTime::SecIndex(0x01020304)), vals, list_sig: None, act_gateway_time: None },
    }
}
fn open_msg() -> RMsg {
    RMsg { tid: vec![1, 2, 3, 4], group: 0, abort: 0, body: RBody::Open { codepage: None, client_id: None, req_file_id: vec![0x11, 0x22], server_id: vec![9, 8, 7, 6, 5], ref_time: None, sml_version: None } }
}
fn close_msg() -> RMsg {
    RMsg { tid: vec![1, 2, 3, 5], group: 0, abort: 0, body: RBody::Close { sig: None } }
}
fn int_values() -> Vec<RValue> {
    let mut v = vec![];
    let leads = [0x00u8, 0x01, 0x7f, 0x80, 0xff];
    // (lo, hi) width class
    for (lo, hi) in [(1usize, 1usize), (2, 2), (3, 4), (5, 8)] {
        for &w in &[lo, hi] {
            for &(lead, distinct) in leads.iter().map(|l| (l, false)).chain([(&0x01u8, true), (&0x80u8, true)]).collect::<Vec<_>>().iter() {
                let lead = *lead;
                let mut b = vec![lead];
                if distinct {
                    b.extend([0x23u8, 0x45, 0x67, 0x89, 0xab, 0xcd, 0xef].iter().take(w - 1));
                } else {
                    b.extend(std::iter::repeat(0xa5).take(w - 1));
                }
                let mut u: u64 = 0;
                for &x in &b {
                    u = (u << 8) | x as u64;
                }
                let s: i64 = if lead & 0x80 != 0 && w < 8 { (u as i64) - (1i64 << (8 * w)) } else { u as i64 };
                let (uv, sv) = match (lo, hi) {
                    (1, 1) => (RValue::U8(u as u8), RValue::I8(s as i8)),
                    (2, 2) => (RValue::U16(u as u16), RValue::I16(s as i16)),
                    (3, 4) => (RValue::U32(u as u32), RValue::I32(s as i32)),
                    _ => (RValue::U64(u), RValue::I64(s)),
                };
                if !v.contains(&uv) {
                    v.push(uv);
                }
                if !v.contains(&sv) {
                    v.push(sv);
                }
            }
        }
    }
    v
}
/// The list-entry product space.
pub fn entry_space(thin: bool) -> Vec<REntry> {
    let names: Vec<Vec<u8>> = vec![vec![], vec![1, 0, 1, 8, 0, 0xff]];
    let statuses: Vec<Option<RStatus>> = vec![None, Some(RStatus::S8(0x82)), Some(RStatus::S16(0x0102)), Some(RStatus::S32(0x00f203)), Some(RStatus::S32(0x8000_0001)), Some(RStatus::S64(0x01_0000_0000)), Some(RStatus::S64(u64::MAX))];
    let times: Vec<Option<RTime>> = vec![None, Some(RTime::SecIndex(0x7f)), Some(RTime::SecIndex(0xfffefdfc))];
    let units: Vec<Option<u8>> = vec![None, Some(30), Some(255)];
    let scalers: Vec<Option<i8>> = vec![None, Some(-1), Some(127), Some(-128)];
    let mut values: Vec<RValue> = vec![RValue::Bool(true), RValue::Bool(false)];
    for l in [0usize, 1, 14, 15, 16] {
        values.push(RValue::Bytes((0..l).map(|i| (i * 7 + 1) as u8).collect()));
    }
    values.extend(int_values());
    values.push(RValue::ListTime(RTime::SecIndex(5)));
    values.push(RValue::ListTime(RTime::SecIndex(0x80000000)));
    let sigs: Vec<Option<Vec<u8>>> = vec![None, Some(vec![0xde, 0xad])];
    let mut v = vec![];
    let mut k = 0usize;
    for n in &names {
        for st in &statuses {
            for tm in &times {
                for u in &units {
                    for sc in &scalers {
                        for val in &values {
                            for sg in &sigs {
                                k += 1;
                                // thinned product for the quick tier: every value with a rotating
                                // selection of the other fields (every pair value x field still occurs)
                                if thin && (k % 7 != 0) {
                                    continue;
                                }
                                v.push(REntry { obj_name: n.clone(), status: st.clone(), val_time: tm.clone(), unit: *u, scaler: *sc, value: val.clone(), sig: sg.clone() });
                            }
                        }
                    }
                }
            }
        }
    }
    v
}
/// Message-level product: optional masks, list lengths across the TLF boundaries, 1-3 messages.
pub fn message_space() -> Vec<RFile> {
    let mut files: Vec<RFile> = vec![];
    let oct = |m: bool, v: &[u8]| if m { Some(v.to_vec()) } else { None };
    let tm = |m: bool| if m { Some(RTime::SecIndex(0x00c0ffee)) } else { None };
    for mask in 0..16u32 {
        for (rf, sv) in [(vec![0x11u8, 0x22], vec![9u8, 8, 7]), (vec![], vec![])] {
            files.push(vec![RMsg {
                tid: vec![1, 2, 3, 4],
                group: (mask & 1) as u8 * 255,
                abort: (mask as u8) & 0xff,
                body: RBody::Open { codepage: oct(mask & 1 != 0, b"ISO"), client_id: oct(mask & 2 != 0, &[1, 2, 3, 4, 5, 6]), req_file_id: rf, server_id: sv, ref_time: tm(mask & 4 != 0), sml_version: if mask & 8 != 0 { Some(1) } else { None } },
            }]);
        }
    }
    for s in [None, Some(vec![0xaa; 3]), Some(vec![]), Some(vec![0x55; 40])] {
        files.push(vec![RMsg { tid: vec![], group: 1, abort: 0xff, body: RBody::Close { sig: s } }]);
    }
    for mask in 0..32u32 {
        for n in [0usize, 1, 2, 14, 15, 16, 17, 255, 256] {
            if n > 17 && mask % 8 != 0 {
                continue;
            }
            files.push(vec![RMsg {
                tid: vec![0x0a; (mask as usize % 3) * 7],
                group: 0,
                abort: 0,
                body: RBody::GetList {
                    client_id: oct(mask & 1 != 0, &[1, 2, 3]),
                    server_id: vec![9, 8, 7, 6, 5, 4, 3, 2, 1, 0],
                    list_name: oct(mask & 2 != 0, &[1, 0, 0x62, 0x0a, 0xff, 0xff]),
                    act_sensor_time: tm(mask & 4 != 0),
                    vals: (0..n as u32).map(simple_entry).collect(),
                    list_sig: oct(mask & 8 != 0, &[0x5a; 16]),
                    act_gateway_time: tm(mask & 16 != 0),
                },
            }]);
        }
    }
    // optional octet strings that are present but empty (only expressible with a non-minimal TLF,
    // since the minimal empty string *is* the absent marker), one field at a time
    {
        let e = Some(vec![]);
        let base_gl = |client_id: Option<Vec<u8>>, list_name: Option<Vec<u8>>, list_sig: Option<Vec<u8>>, entry_sig: Option<Vec<u8>>| RMsg {
            tid: vec![7],
            group: 0,
            abort: 0,
            body: RBody::GetList { client_id, server_id: vec![1], list_name, act_sensor_time: None, vals: vec![REntry { sig: entry_sig, ..simple_entry(3) }], list_sig, act_gateway_time: None },
        };
        files.push(vec![base_gl(e.clone(), None, None, None)]);
        files.push(vec![base_gl(None, e.clone(), None, None)]);
        files.push(vec![base_gl(None, None, e.clone(), None)]);
        files.push(vec![base_gl(None, None, None, e.clone())]);
        files.push(vec![base_gl(e.clone(), e.clone(), e.clone(), e.clone())]);
        let base_open = |codepage: Option<Vec<u8>>, client_id: Option<Vec<u8>>| RMsg { tid: vec![7], group: 0, abort: 0, body: RBody::Open { codepage, client_id, req_file_id: vec![], server_id: vec![], ref_time: None, sml_version: None } };
        files.push(vec![base_open(e.clone(), None)]);
        files.push(vec![base_open(None, e.clone())]);
        files.push(vec![base_open(e.clone(), e.clone()), base_gl(None, None, e.clone(), None), RMsg { tid: vec![], group: 0, abort: 0, body: RBody::Close { sig: e.clone() } }]);
    }
    // very long lists of minimal entries: the element count crosses 2^12 and 2^16
    let min_entry = REntry { obj_name: vec![], status: None, val_time: None, unit: None, scaler: None, value: RValue::Bytes(vec![]), sig: None };
    for n in [4095usize, 4096, 65534, 65535, 65536, 65537] {
        files.push(vec![getlist(vec![min_entry.clone(); n]), close_msg()]);
    }
    // transaction ids across the 15/16-byte TLF boundary and a long one
    for l in [0usize, 1, 13, 14, 15, 16, 17, 255, 256, 300] {
        let mut m = close_msg();
        m.tid = (0..l).map(|i| i as u8).collect();
        files.push(vec![m]);
    }
    // files of 1..3 messages
    let pool = [open_msg(), getlist(vec![simple_entry(1), simple_entry(2)]), getlist(vec![]), close_msg()];
    for a in 0..pool.len() {
        for b in 0..pool.len() {
            files.push(vec![pool[a].clone(), pool[b].clone()]);
            for c in 0..pool.len() {
                files.push(vec![pool[a].clone(), pool[b].clone(), pool[c].clone()]);
            }
        }
    }
    files.push(vec![]);
    files
}

/// Enumerates every deviation vector with at most `budget` non-default choices.
fn for_each_dev(sites: &[u8], budget: usize, f: &mut dyn FnMut(&[(usize, u8)])) {
    fn rec(sites: &[u8], from: usize, budget: usize, cur: &mut Vec<(usize, u8)>, f: &mut dyn FnMut(&[(usize, u8)])) {
        f(cur);
        if budget == 0 {
            return;
        }
        for i in from..sites.len() {
            for o in 1..sites[i] {
                cur.push((i, o));
                rec(sites, i + 1, budget - 1, cur, f);
                cur.pop();
            }
        }
    }
    rec(sites, 0, budget, &mut vec![], f);
}

fn gen_family(files: &[RFile], budget: usize, acc_proto: &Acc, name: &'static str) -> Acc {
    let parts = par_chunks(files.len() as u64, 8, |a, b| {
        let mut acc = Acc::new(&acc_proto.report, acc_proto.rename_c12);
        for i in a..b {
            let file = &files[i as usize];
            let (_, sites) = encode_file(file, &[]);
            // long lists have thousands of sites: deviations only on the first 120 sites there
            let lim = if sites.len() > 5000 { 8 } else if sites.len() > 400 { 120 } else { sites.len() };
            let bud = if sites.len() > 400 { budget.min(1) } else { budget };
            for_each_dev(&sites[..lim], bud, &mut |dev| {
                let (x, _) = encode_file(file, dev);
                // binding of the two halves of the reference: reader(encode(F)) == F
                match read_file(&x) {
                    Ok(g) if g == *file => {}
                    other => machinery(&format!("reference generator and reader disagree on {:?} dev {:?}: bytes {} read {:?}", file, dev, hex(&x), other)),
                }
                if !dev.is_empty() {
                    acc.counts.inc("encodings with non-default choices");
                }
                let _ = acc.feed(&x, name);
                if acc.samples.len() < 2 && dev.len() == 1 {
                    acc.samples.push(hex(&x));
                }
            });
        }
        acc
    });
    let mut acc = Acc::new(&acc_proto.report, acc_proto.rename_c12);
    for p in parts {
        acc.merge(p);
    }
    acc
}


/// Non-periodic byte pattern (a misplaced or shortened copy does not reproduce it).
fn pattern(len: usize, salt: u32) -> Vec<u8> {
    (0..len as u32).map(|k| ((k.wrapping_add(salt).wrapping_mul(0x9E37_79B1) ^ (k >> 5).wrapping_mul(0x85EB_CA6B)) >> 24) as u8).collect()
}
/// Every byte-string field of every message type, one at a time, with every length 0..=300 and
/// lengths around 2^12 and 2^16 (data present); all other fields at small defaults.
fn octet_field_files(lengths: &[usize]) -> Vec<RFile> {
    let mut v: Vec<RFile> = vec![];
    let base_entry = REntry { obj_name: vec![1, 0, 1, 8, 0, 0xff], status: None, val_time: None, unit: Some(30), scaler: Some(-1), value: RValue::U8(7), sig: None };
    for &l in lengths {
        let d = |salt: u32| pattern(l, salt);
        let od = |salt: u32| Some(pattern(l, salt));
        // transaction id (all three message kinds share the envelope)
        v.push(vec![RMsg { tid: d(1), ..close_msg() }]);
        // open response: codepage, client_id, req_file_id, server_id
        let open = |codepage, client_id, req_file_id, server_id| RMsg { tid: vec![1, 2, 3, 4], group: 0, abort: 0, body: RBody::Open { codepage, client_id, req_file_id, server_id, ref_time: None, sml_version: None } };
        v.push(vec![open(od(2), None, vec![0x11], vec![9])]);
        v.push(vec![open(None, od(3), vec![0x11], vec![9])]);
        v.push(vec![open(None, None, d(4), vec![9])]);
        v.push(vec![open(None, None, vec![0x11], d(5))]);
        // close response: global signature
        v.push(vec![RMsg { body: RBody::Close { sig: od(6) }, ..close_msg() }]);
        // get-list response: client_id, server_id, list_name, list signature
        let gl = |client_id, server_id, list_name, list_sig, vals| RMsg { tid: vec![0x0a], group: 0, abort: 0, body: RBody::GetList { client_id, server_id, list_name, act_sensor_time: None, vals, list_sig, act_gateway_time: None } };
        v.push(vec![gl(od(7), vec![9], None, None, vec![base_entry.clone()])]);
        v.push(vec![gl(None, d(8), None, None, vec![base_entry.clone()])]);
        v.push(vec![gl(None, vec![9], od(9), None, vec![base_entry.clone()])]);
        v.push(vec![gl(None, vec![9], None, od(10), vec![base_entry.clone()])]);
        // list entry: object name, value, value signature
        v.push(vec![gl(None, vec![9], None, None, vec![REntry { obj_name: d(11), ..base_entry.clone() }])]);
        v.push(vec![gl(None, vec![9], None, None, vec![REntry { value: RValue::Bytes(d(12)), ..base_entry.clone() }])]);
        v.push(vec![gl(None, vec![9], None, None, vec![base_entry.clone(), REntry { sig: od(13), ..base_entry.clone() }])]);
    }
    v
}
fn octet_field_sweep(proto: &Acc, tier: Tier) -> Acc {
    let mut lengths: Vec<usize> = (0..=300).collect();
    lengths.extend_from_slice(&[4093, 4094, 4095, 4096, 4097, 65533, 65534, 65535, 65536, 65537, 100_000]);
    if tier == Tier::Thorough {
        lengths.extend(301..=1100);
        lengths.extend_from_slice(&[1 << 20, (1 << 20) + 1, (1 << 24) - 5, 1 << 24]);
    }
    let files = octet_field_files(&lengths);
    let mut acc = gen_family(&files, 1, proto, "generated: every byte-string field x every length 0..=300 and lengths around 2^12, 2^16 (data present)");
    acc.counts.addn("byte-string field x length files", files.len() as u64);
    acc
}

// ------------------------------------------------------------------ seeds
pub fn real_payloads() -> Vec<Vec<u8>> {
    // De-framed with the reference recogniser (not with sml-rs), so that the corpus does not
    // depend on the transport decoder under test.
    let dir = crate::report::repo_dir().join("tests/libsml-testing");
    let mut names: Vec<_> = match std::fs::read_dir(&dir) {
        Ok(d) => d.filter_map(|e| e.ok()).map(|e| e.path()).filter(|p| p.extension().and_then(|x| x.to_str()) == Some("bin")).collect(),
        Err(_) => vec![],
    };
    names.sort();
    let mut v = vec![];
    for p in names {
        if let Ok(bytes) = std::fs::read(&p) {
            let mut i = 0;
            while i + 16 <= bytes.len() {
                if bytes[i..i + 8] != crate::refm::START {
                    i += 1;
                    continue;
                }
                let mut found = None;
                let mut j = i + 16;
                while j <= bytes.len() {
                    if bytes[j - 8..j - 3] == [0x1b, 0x1b, 0x1b, 0x1b, 0x1a] {
                        if let Some(m) = crate::refm::recognise(&bytes[i..j]) {
                            found = Some((j, m));
                            break;
                        }
                    }
                    // a new start sequence before any valid end: give up on this one
                    if j - i > 8 && j + 8 <= bytes.len() && bytes[j..j + 8] == crate::refm::START && (j - i) % 4 == 0 && false {
                        break;
                    }
                    j += 4;
                }
                match found {
                    Some((j, m)) => {
                        v.push(m);
                        i = j;
                    }
                    None => i += 1,
                }
            }
        }
    }
    v
}
/// Seed set: generated files covering every construct + real meter payloads of distinct shapes.
pub fn seeds(tier: Tier) -> Vec<Vec<u8>> {
    let mut s: Vec<Vec<u8>> = vec![];
    let e1 = REntry { obj_name: vec![1, 0, 1, 8, 0, 0xff], status: Some(RStatus::S16(0x0182)), val_time: Some(RTime::SecIndex(77)), unit: Some(30), scaler: Some(-1), value: RValue::I64(-123456789012), sig: Some(vec![1, 2, 3]) };
    let e2 = REntry { obj_name: vec![1, 0, 0x60, 1, 0, 0xff], status: None, val_time: None, unit: None, scaler: None, value: RValue::Bytes(b"0123456789abcdef".to_vec()), sig: None };
    let e3 = REntry { obj_name: vec![], status: Some(RStatus::S64(1 << 40)), val_time: None, unit: None, scaler: Some(3), value: RValue::ListTime(RTime::SecIndex(9)), sig: None };
    let e4 = REntry { obj_name: vec![7], status: Some(RStatus::S8(1)), val_time: None, unit: Some(27), scaler: None, value: RValue::Bool(true), sig: None };
    let full_open = RMsg { tid: vec![1, 2, 3], group: 0, abort: 0, body: RBody::Open { codepage: Some(b"UTF".to_vec()), client_id: Some(vec![5; 6]), req_file_id: vec![0x42; 4], server_id: vec![9; 10], ref_time: Some(RTime::SecIndex(1000)), sml_version: Some(1) } };
    let files: Vec<RFile> = vec![
        vec![close_msg()],
        vec![open_msg()],
        vec![full_open.clone()],
        vec![getlist(vec![])],
        vec![getlist(vec![e1.clone()])],
        vec![getlist(vec![e2.clone(), e3.clone()])],
        vec![getlist(vec![e4.clone(), e1.clone(), e2.clone()])],
        vec![open_msg(), getlist(vec![e1.clone(), e4.clone()]), close_msg()],
        vec![getlist((0..16).map(simple_entry).collect())],
    ];
    for f in &files {
        s.push(encode_file(f, &[]).0);
    }
    // every single non-default encoding choice of a rich one-entry file as a seed of its own
    // (workaround time, wider integers, non-minimal and 8-byte TLFs, 0xff booleans ...)
    {
        let rich = vec![getlist(vec![REntry { value: RValue::ListTime(RTime::SecIndex(0x01020304)), ..e1.clone() }])];
        let (_, sites) = encode_file(&rich, &[]);
        for (i, &n) in sites.iter().enumerate() {
            for o in 1..n {
                s.push(encode_file(&rich, &[(i, o)]).0);
            }
        }
        s.push(encode_file(&files[2], &[(0, 1), (3, 2)]).0);
    }
    let mut real = real_payloads();
    real.sort_by_key(|p| p.len());
    real.dedup_by_key(|p| p.len());
    let take = tier.pick(6, 16);
    // shortest, and spread over the length range
    let n = real.len();
    if n > 0 {
        for k in 0..take.min(n) {
            s.push(real[k * (n - 1) / take.max(2).min(n).max(1) % n].clone());
        }
    }
    s.sort();
    s.dedup();
    s
}

// ------------------------------------------------------------------ mutation families (C04 / C09 / C13 / C06)
const STRUCT_BYTES: [u8; 16] = [0x00, 0x01, 0x62, 0x63, 0x65, 0x71, 0x72, 0x76, 0x77, 0x42, 0x52, 0x0f, 0x80, 0x81, 0xf1, 0xff];

fn feed_both(acc: &mut Acc, x: &[u8], fam: &'static str) {
    acc.feed(x, fam);
    let rep = repair_crcs(x);
    if let Some(y) = &rep {
        if y != x {
            acc.feed(y, "checksum-repaired variants");
        }
    }
    // "checksums recomputed by an attacker" also where the independent reader finds no
    // structure to repair: if the input ends like a message (`63 hi lo 00`) and starts like
    // one, recompute the checksum over everything before that tail
    let n = x.len();
    if n >= 6 && x[n - 4] == 0x63 && x[n - 1] == 0x00 && x[0] == 0x76 {
        let crc = crate::refm::crc_x25(&x[..n - 4]).swap_bytes();
        let mut y = x.to_vec();
        y[n - 3] = (crc >> 8) as u8;
        y[n - 2] = crc as u8;
        if y != x && rep.as_ref() != Some(&y) {
            acc.feed(&y, "tail-checksum-recomputed variants");
        }
    }
}
fn mutation_family(seed_set: &[Vec<u8>], tier: Tier, proto: &Acc, double: bool) -> Acc {
    // work items: (seed index, position)
    let mut items: Vec<(usize, usize)> = vec![];
    for (si, s) in seed_set.iter().enumerate() {
        for p in 0..=s.len() {
            items.push((si, p));
        }
    }
    let parts = par_chunks(items.len() as u64, 16, |a, b| {
        let mut acc = Acc::new(&proto.report, proto.rename_c12);
        for k in a..b {
            let (si, p) = items[k as usize];
            let seed = &seed_set[si];
            // truncation to p bytes
            feed_both(&mut acc, &seed[..p], "truncations");
            // insertion of every byte value before position p (p == len: append)
            let ins_vals: Vec<u8> = if tier == Tier::Thorough || seed.len() <= 80 { (0..=255u8).collect() } else { STRUCT_BYTES.to_vec() };
            for &v in &ins_vals {
                let mut x = Vec::with_capacity(seed.len() + 1);
                x.extend_from_slice(&seed[..p]);
                x.push(v);
                x.extend_from_slice(&seed[p..]);
                feed_both(&mut acc, &x, "one-byte insertions / appends");
            }
            if p < seed.len() {
                // deletion
                let mut x = seed.clone();
                x.remove(p);
                feed_both(&mut acc, &x, "one-byte deletions");
                // substitution by every other value
                for v in 0..=255u8 {
                    if v == seed[p] {
                        continue;
                    }
                    let mut x = seed.clone();
                    x[p] = v;
                    feed_both(&mut acc, &x, "single-byte substitutions");
                    // double defects: the same substitution combined with a defect at the very end
                    // (missing / wrong end marker, cut checksum) - error precedence must agree too
                    if (STRUCT_BYTES.contains(&v) || v == seed[p] ^ 0x01) && p + 4 < seed.len() {
                        let n = x.len();
                        acc.feed(&x[..n - 1], "substitution + truncated tail");
                        acc.feed(&x[..n - 2], "substitution + truncated tail");
                        let mut y = x.clone();
                        y[n - 1] = 0x01;
                        acc.feed(&y, "substitution + wrong end marker");
                    }
                    if double && seed.len() <= 64 && STRUCT_BYTES.contains(&v) {
                        for q in p + 1..seed.len() {
                            for &w in &STRUCT_BYTES {
                                if w == seed[q] {
                                    continue;
                                }
                                let mut y = x.clone();
                                y[q] = w;
                                feed_both(&mut acc, &y, "two-byte substitutions");
                            }
                        }
                    }
                }
            }
        }
        acc
    });
    let mut acc = Acc::new(&proto.report, proto.rename_c12);
    for p in parts {
        acc.merge(p);
    }
    acc
}
fn splice_family(seed_set: &[Vec<u8>], max_pairs: usize, proto: &Acc) -> Acc {
    let mut pairs = vec![];
    'o: for a in 0..seed_set.len() {
        for b in 0..seed_set.len() {
            if seed_set[a].len() <= 120 && seed_set[b].len() <= 120 {
                pairs.push((a, b));
                if pairs.len() >= max_pairs {
                    break 'o;
                }
            }
        }
    }
    let parts = par_chunks(pairs.len() as u64, 1, |a, b| {
        let mut acc = Acc::new(&proto.report, proto.rename_c12);
        for k in a..b {
            let (ia, ib) = pairs[k as usize];
            let (sa, sb) = (&seed_set[ia], &seed_set[ib]);
            for i in 0..=sa.len() {
                for j in 0..=sb.len() {
                    let mut x = sa[..i].to_vec();
                    x.extend_from_slice(&sb[j..]);
                    feed_both(&mut acc, &x, "splices prefix(A)+suffix(B)");
                }
            }
            // second message appended
            let mut x = sa.clone();
            x.extend_from_slice(sb);
            feed_both(&mut acc, &x, "concatenations");
        }
        acc
    });
    let mut acc = Acc::new(&proto.report, proto.rename_c12);
    for p in parts {
        acc.merge(p);
    }
    acc
}
fn short_strings_family(maxlen: u32, proto: &Acc) -> Acc {
    let total: u64 = (0..=maxlen).map(|l| 256u64.pow(l)).sum();
    let parts = par_chunks(total, 1 << 14, |a, b| {
        let mut acc = Acc::new(&proto.report, proto.rename_c12);
        for idx in a..b {
            let mut i = idx;
            let mut len = 0u32;
            while i >= 256u64.pow(len) {
                i -= 256u64.pow(len);
                len += 1;
            }
            let mut x = vec![0u8; len as usize];
            for k in (0..len as usize).rev() {
                x[k] = (i & 0xff) as u8;
                i >>= 8;
            }
            acc.feed(&x, "all byte strings up to the stated length");
        }
        acc
    });
    let mut acc = Acc::new(&proto.report, proto.rename_c12);
    for p in parts {
        acc.merge(p);
    }
    acc
}

/// Every string up to `maxlen` over the 16 structural bytes (TLF heads, markers, tags).
fn struct_strings_family(maxlen: u32, proto: &Acc) -> Acc {
    let total: u64 = (0..=maxlen).map(|l| 16u64.pow(l)).sum();
    let parts = par_chunks(total, 1 << 14, |a, b| {
        let mut acc = Acc::new(&proto.report, proto.rename_c12);
        for idx in a..b {
            let mut i = idx;
            let mut len = 0u32;
            while i >= 16u64.pow(len) {
                i -= 16u64.pow(len);
                len += 1;
            }
            let mut x = vec![0u8; len as usize];
            for k in (0..len as usize).rev() {
                x[k] = STRUCT_BYTES[(i & 0xf) as usize];
                i >>= 4;
            }
            acc.feed(&x, "all strings over 16 structural bytes up to the stated length");
        }
        acc
    });
    let mut acc = Acc::new(&proto.report, proto.rename_c12);
    for p in parts {
        acc.merge(p);
    }
    acc
}

/// Raw TLF bytes of type `ty` whose concatenated nibbles equal `v`, in `n` bytes (n >= minimal).
pub fn raw_tlf(ty: Ty, v: u128, n: usize) -> Vec<u8> {
    let mut out = vec![];
    for k in 0..n {
        let sh = 4 * (n - 1 - k);
        let nib = if sh >= 128 { 0 } else { ((v >> sh) & 0xf) as u8 };
        let more = if k + 1 < n { 0x80 } else { 0 };
        let tb = if k == 0 { ty.bits() } else { 0 };
        out.push(more | tb | nib);
    }
    out
}
fn min_nibbles(v: u128) -> usize {
    let mut n = 1;
    while v >= (1u128 << (4 * n)) {
        n += 1;
    }
    n
}
pub const DECLARED: [u128; 19] = [0, 1, 2, 14, 15, 16, 255, 256, 4095, 65535, 0x1ffff, (1 << 24) - 1, (1 << 31) - 1, 1 << 31, (1u128 << 32) - 3, (1u128 << 32) - 2, (1u128 << 32) - 1, 1u128 << 32, (1u128 << 36) + 5];

/// Every TLF position of every seed replaced by a TLF of each type declaring each length of `DECLARED`.
fn tlf_replacement_family(seed_set: &[Vec<u8>], proto: &Acc) -> Acc {
    let mut items = vec![];
    for (si, s) in seed_set.iter().enumerate() {
        if let Some(m) = tlf_map(s) {
            for site in m {
                items.push((si, site.off, site.nbytes));
            }
        }
    }
    let parts = par_chunks(items.len() as u64, 4, |a, b| {
        let mut acc = Acc::new(&proto.report, proto.rename_c12);
        for k in a..b {
            let (si, off, nb) = items[k as usize];
            let seed = &seed_set[si];
            for ty in [Ty::Octet, Ty::Int, Ty::Uint, Ty::List] {
                for &l in &DECLARED {
                    for extra in [0usize, 1] {
                        // declared (decoded) length l: non-list types carry their own size
                        let n0 = min_nibbles(l + 12).max(1);
                        let n = n0 + extra;
                        let v = if ty == Ty::List { l } else { l + n as u128 };
                        let t = raw_tlf(ty, v, n.max(min_nibbles(v)));
                        let mut x = seed[..off].to_vec();
                        x.extend_from_slice(&t);
                        x.extend_from_slice(&seed[off + nb..]);
                        feed_both(&mut acc, &x, "type-length field replaced by one declaring an arbitrary length");
                    }
                }
            }
        }
        acc
    });
    let mut acc = Acc::new(&proto.report, proto.rename_c12);
    for p in parts {
        acc.merge(p);
    }
    acc
}

/// Calibration of the C06 constant: n minimal list entries / k minimal messages.
fn calibration_family(proto: &Acc) -> (Acc, f64) {
    let mut acc = Acc::new(&proto.report, proto.rename_c12);
    let mut worst: f64 = 0.0;
    let min_entry = REntry { obj_name: vec![], status: None, val_time: None, unit: None, scaler: None, value: RValue::Bytes(vec![]), sig: None };
    for n in (0..=300usize).chain([1000, 4096]) {
        let f = vec![getlist(vec![min_entry.clone(); n])];
        let x = encode_file(&f, &[]).0;
        let o = acc.feed(&x, "calibration: n minimal list entries");
        worst = worst.max(o.alloc.peak_live.max(o.alloc.max_request) as f64 / x.len() as f64);
    }
    for k in (1..=300usize).chain([1000]) {
        let f: RFile = (0..k).map(|_| RMsg { tid: vec![], group: 0, abort: 0, body: RBody::Close { sig: None } }).collect();
        let x = encode_file(&f, &[]).0;
        let o = acc.feed(&x, "calibration: k minimal messages");
        worst = worst.max(o.alloc.peak_live.max(o.alloc.max_request) as f64 / x.len() as f64);
    }
    (acc, worst)
}

/// Lists of n *minimal* entries (8 bytes each) whose TLF declares more entries than are present:
/// an allocation that follows the declared count instead of the input shows up here even when the
/// parser only over-allocates after some entries have been read.
fn overdeclared_lists_family(proto: &Acc) -> Acc {
    let mut inputs: Vec<Vec<u8>> = vec![];
    for present in (0..=40usize).chain([64, 100, 300]) {
        for &declared in &DECLARED {
            if declared < present as u128 || declared > u32::MAX as u128 {
                continue;
            }
            for tail in [false, true] {
                // header of a get-list response up to the value list
                let mut body = vec![0x76, 0x03, 0x0a, 0x0b, 0x62, 0x00, 0x62, 0x00, 0x72, 0x63, 0x07, 0x01, 0x77, 0x01, 0x03, 0x09, 0x08, 0x01, 0x01];
                body.extend(raw_tlf(Ty::List, declared, min_nibbles(declared)));
                for _ in 0..present {
                    body.extend_from_slice(&[0x77, 0x01, 0x01, 0x01, 0x01, 0x01, 0x01, 0x01]);
                }
                if tail {
                    body.extend_from_slice(&[0x01, 0x01]);
                    let crc = crate::refm::crc_x25(&body).swap_bytes();
                    body.extend_from_slice(&[0x63, (crc >> 8) as u8, crc as u8, 0x00]);
                }
                inputs.push(body);
            }
        }
    }
    let parts = par_chunks(inputs.len() as u64, 16, |a, b| {
        let mut acc = Acc::new(&proto.report, proto.rename_c12);
        for i in a..b {
            acc.feed(&inputs[i as usize], "lists of minimal entries declaring more entries than present");
        }
        acc
    });
    let mut acc = Acc::new(&proto.report, proto.rename_c12);
    for p in parts {
        acc.merge(p);
    }
    acc
}

/// Every message checksum field of every seed re-encoded in every way a lenient comparison might
/// accept: one byte (either half), swapped halves, zero-extended, wider, other types.
fn crc_field_family(seed_set: &[Vec<u8>], proto: &Acc) -> Acc {
    let mut inputs: Vec<Vec<u8>> = vec![];
    for s in seed_set {
        let mut c = Cur::new(s);
        let mut ok = true;
        while c.i < s.len() {
            if c.message().is_err() {
                ok = false;
                break;
            }
        }
        if !ok {
            continue;
        }
        for &(_, _, at) in &c.crc_sites {
            if s[at] != 0x63 {
                continue;
            }
            let (hi, lo) = (s[at + 1], s[at + 2]);
            let variants: Vec<Vec<u8>> = vec![
                vec![0x62, lo],
                vec![0x62, hi],
                vec![0x63, lo, hi],
                vec![0x63, 0x00, lo],
                vec![0x63, 0x00, hi],
                vec![0x63, hi, 0x00],
                vec![0x64, 0x00, hi, lo],
                vec![0x65, 0x00, 0x00, hi, lo],
                vec![0x64, hi, lo, 0x00],
                vec![0x53, hi, lo],
                vec![0x52, lo],
                vec![0x03, hi, lo],
                vec![0x43, hi, lo],
                vec![0x72, 0x62, hi, 0x62, lo],
                vec![0xe0, 0x04, hi, lo],
                vec![0x01],
                vec![0x61],
                vec![0x63, hi],
            ];
            for v in variants {
                let mut x = s[..at].to_vec();
                x.extend_from_slice(&v);
                x.extend_from_slice(&s[at + 3..]);
                inputs.push(x);
            }
        }
    }
    let parts = par_chunks(inputs.len() as u64, 16, |a, b| {
        let mut acc = Acc::new(&proto.report, proto.rename_c12);
        for i in a..b {
            acc.feed(&inputs[i as usize], "checksum field re-encoded (short, swapped, wider, other type)");
        }
        acc
    });
    let mut acc = Acc::new(&proto.report, proto.rename_c12);
    for p in parts {
        acc.merge(p);
    }
    acc
}

// ------------------------------------------------------------------ C12 families
/// Template get-list message with a hole at one of four grammar sites; `fill` is the
/// candidate TLF bytes and `n` the number of payload bytes / list elements supplied.
fn c12_input(site: u8, tlf: &[u8], n: usize) -> Vec<u8> {
    let data: Vec<u8> = (0..n).map(|i| (i % 251) as u8 ^ 0x5a).collect();
    let mut body = vec![];
    let entry_tail = [0x01u8]; // value_signature absent
    match site {
        // s1: transaction_id
        1 => {
            body.push(0x76);
            body.extend_from_slice(tlf);
            body.extend_from_slice(&data);
            body.extend_from_slice(&[0x62, 0x00, 0x62, 0x00, 0x72, 0x63, 0x02, 0x01, 0x71, 0x01]);
        }
        // s2: the value list of a get-list response, n entries supplied
        2 => {
            body.extend_from_slice(&[0x76, 0x03, 0x0a, 0x0b, 0x62, 0x00, 0x62, 0x00, 0x72, 0x63, 0x07, 0x01, 0x77, 0x01, 0x03, 0x09, 0x08, 0x01, 0x01]);
            body.extend_from_slice(tlf);
            for i in 0..n {
                body.extend_from_slice(&[0x77, 0x01, 0x01, 0x01, 0x01, 0x01, 0x62, i as u8, 0x01]);
            }
            body.extend_from_slice(&[0x01, 0x01]);
        }
        // s3: a list entry's value
        3 => {
            body.extend_from_slice(&[0x76, 0x03, 0x0a, 0x0b, 0x62, 0x00, 0x62, 0x00, 0x72, 0x63, 0x07, 0x01, 0x77, 0x01, 0x03, 0x09, 0x08, 0x01, 0x01, 0x71]);
            body.extend_from_slice(&[0x77, 0x01, 0x01, 0x01, 0x01, 0x01]);
            body.extend_from_slice(tlf);
            body.extend_from_slice(&data);
            body.extend_from_slice(&entry_tail);
            body.extend_from_slice(&[0x01, 0x01]);
        }
        // s5: a list entry's val_time, n data bytes follow; s6: the same position followed by what the
        // inside of a time choice list looks like (tag 1, 4-byte seconds index)
        5 | 6 => {
            body.extend_from_slice(&[0x76, 0x03, 0x0a, 0x0b, 0x62, 0x00, 0x62, 0x00, 0x72, 0x63, 0x07, 0x01, 0x77, 0x01, 0x03, 0x09, 0x08, 0x01, 0x01, 0x71]);
            body.extend_from_slice(&[0x77, 0x01, 0x01]);
            body.extend_from_slice(tlf);
            if site == 5 {
                body.extend_from_slice(&data);
            } else {
                body.extend_from_slice(&[0x62, 0x01, 0x65, 0x00, 0x00, 0x00, 0x2a]);
            }
            body.extend_from_slice(&[0x01, 0x01, 0x62, 0x05, 0x01]);
            body.extend_from_slice(&[0x01, 0x01]);
        }
        // s4: the message head (n is ignored: a close response body follows)
        _ => {
            body.extend_from_slice(tlf);
            body.extend_from_slice(&[0x03, 0x0a, 0x0b, 0x62, 0x00, 0x62, 0x00, 0x72, 0x63, 0x02, 0x01, 0x71, 0x01]);
        }
    }
    let crc = crate::refm::crc_x25(&body).swap_bytes();
    body.extend_from_slice(&[0x63, (crc >> 8) as u8, crc as u8, 0x00]);
    body
}
/// Plausible decoded lengths for TLF bytes `t`: the reference's, and what wrapping /
/// truncating / forgetting the own-size rule would give. Capped at `cap`.
fn hypotheses(t: &[u8], cap: u128) -> Vec<usize> {
    let mut l: u128 = (t[0] & 0x0f) as u128;
    for &b in &t[1..] {
        l = (l << 4) | (b & 0x0f) as u128;
        l &= (1u128 << 100) - 1;
    }
    let k = t.len() as u128;
    let mut h: Vec<u128> = vec![];
    if let Ok((_, n, _)) = ref_tlf(t) {
        h.push(n as u128);
    }
    let m32 = l & 0xffff_ffff;
    let m16 = l & 0xffff;
    for c in [l.checked_sub(k), Some(l), m32.checked_sub(k), Some(m32), m16.checked_sub(k), l.checked_sub(k + 1), l.checked_sub(k).map(|x| x + 1), Some(0), Some((l & 0xf).saturating_sub(1))] {
        if let Some(c) = c {
            h.push(c);
        }
    }
    let mut out: Vec<usize> = h.into_iter().filter(|&x| x <= cap).map(|x| x as usize).collect();
    out.sort();
    out.dedup();
    out
}
fn c12_tlf_family(maxbytes: usize, sites: &[u8], proto: &Acc, name: &'static str) -> Acc {
    let total: u64 = 1u64 << (8 * maxbytes);
    let parts = par_chunks(total, 1 << 12, |a, b| {
        let mut acc = Acc::new(&proto.report, proto.rename_c12);
        for idx in a..b {
            let mut t = vec![0u8; maxbytes];
            for k in 0..maxbytes {
                t[k] = (idx >> (8 * (maxbytes - 1 - k))) as u8;
            }
            // a TLF of exactly `maxbytes` bytes: continuation bits on all but the last byte decide that;
            // sequences that end earlier are covered by the shorter enumerations
            let uses = {
                let mut n = 1;
                while n < maxbytes && t[n - 1] & 0x80 != 0 {
                    n += 1;
                }
                n
            };
            if uses != maxbytes && maxbytes > 1 {
                continue;
            }
            for &site in sites {
                let cap = if site == 2 { 3 } else if site == 6 { 0 } else { 4200 };
                for n in hypotheses(&t, cap) {
                    let x = c12_input(site, &t, n);
                    acc.feed(&x, name);
                }
            }
        }
        acc
    });
    let mut acc = Acc::new(&proto.report, proto.rename_c12);
    for p in parts {
        acc.merge(p);
    }
    acc
}
fn c12_long_tlfs(proto: &Acc) -> Acc {
    // TLFs of 4..12 bytes: continuation nibbles in {0,1,f}, every type, lengths up to and beyond 2^32
    let mut tl: Vec<Vec<u8>> = vec![];
    for ty in [Ty::Octet, Ty::Int, Ty::Uint, Ty::List, Ty::Bool] {
        for n in 4..=12usize {
            // all nibble strings over {0,1,f} for the first 3 and last 2 positions, zeros / ones between
            for pat in 0..3u32.pow(5) {
                for mid in [0u8, 0x1, 0xf] {
                    let mut nibs = vec![mid; n];
                    let mut p = pat;
                    for pos in [0usize, 1, 2, n - 2, n - 1] {
                        nibs[pos] = [0u8, 1, 0xf][(p % 3) as usize];
                        p /= 3;
                    }
                    let mut t = vec![];
                    for (k, nb) in nibs.iter().enumerate() {
                        let more = if k + 1 < n { 0x80 } else { 0 };
                        let tb = if k == 0 { ty.bits() } else { 0 };
                        t.push(more | tb | nb);
                    }
                    tl.push(t);
                }
            }
        }
    }
    for &l in &DECLARED {
        for ty in [Ty::Octet, Ty::Uint, Ty::List] {
            for extra in 0..3 {
                let n = min_nibbles(l + 16) + extra;
                tl.push(raw_tlf(ty, l, n));
                tl.push(raw_tlf(ty, l + n as u128, n));
            }
        }
    }
    // one or two set groups far above the low 32 bits (wider accumulators lose them as well),
    // with a small low part that the data can satisfy
    for n in 9..=72usize {
        for ty in [Ty::Octet, Ty::List, Ty::Uint] {
            for hi in 0..n - 8 {
                if n > 24 && !(hi < 3 || hi + 11 >= n || hi % 8 == 0) {
                    continue;
                }
                for low in [n as u128 + 2, 6u128] {
                    for g in [1u8, 0xf] {
                        let mut nibs = vec![0u8; n];
                        nibs[hi] = g;
                        for k in 0..8 {
                            nibs[n - 1 - k] = ((low >> (4 * k)) & 0xf) as u8;
                        }
                        let mut t = vec![];
                        for (k, nb) in nibs.iter().enumerate() {
                            let more = if k + 1 < n { 0x80 } else { 0 };
                            let tb = if k == 0 { ty.bits() } else { 0 };
                            t.push(more | tb | nb);
                        }
                        tl.push(t);
                    }
                }
            }
        }
    }
    // very long fields with leading zero groups: the value still fits 32 bits, so the SML rule
    // accepts them; the field's own byte count crosses every 8- and 16-bit counter width
    for n in [13usize, 16, 17, 64, 127, 128, 254, 255, 256, 257, 258, 300, 1000, 65535, 65536, 65537] {
        for ty in [Ty::Octet, Ty::Uint, Ty::List] {
            for v in [0u128, 1, 2, n as u128, n as u128 + 1, n as u128 + 3, 7] {
                tl.push(raw_tlf(ty, v, n));
            }
        }
    }
    tl.sort();
    tl.dedup();
    let parts = par_chunks(tl.len() as u64, 64, |a, b| {
        let mut acc = Acc::new(&proto.report, proto.rename_c12);
        for i in a..b {
            let t = &tl[i as usize];
            for site in [1u8, 2, 3, 4, 5, 6] {
                let cap = if site == 2 { 3 } else if site == 6 { 0 } else { 4200 };
                for n in hypotheses(t, cap) {
                    acc.feed(&c12_input(site, t, n), "type-length fields of 4..12 bytes at four grammar sites");
                }
            }
        }
        acc
    });
    let mut acc = Acc::new(&proto.report, proto.rename_c12);
    for p in parts {
        acc.merge(p);
    }
    acc
}
/// Integers, booleans and octet strings at every site where the grammar admits them.
fn c12_primitives(proto: &Acc, tier: Tier) -> Acc {
    let mut inputs: Vec<Vec<u8>> = vec![];
    let msg_with_entry = |entry_fields: &[u8]| -> Vec<u8> {
        let mut body = vec![0x76, 0x03, 0x0a, 0x0b, 0x62, 0x00, 0x62, 0x00, 0x72, 0x63, 0x07, 0x01, 0x77, 0x01, 0x03, 0x09, 0x08, 0x01, 0x01, 0x71];
        body.extend_from_slice(entry_fields);
        body.extend_from_slice(&[0x01, 0x01]);
        let crc = crate::refm::crc_x25(&body).swap_bytes();
        body.extend_from_slice(&[0x63, (crc >> 8) as u8, crc as u8, 0x00]);
        body
    };
    let int_enc = |ty: u8, bytes: &[u8]| -> Vec<u8> {
        let mut v = vec![ty | (bytes.len() as u8 + 1)];
        v.extend_from_slice(bytes);
        v
    };
    // all values of width 1 and 2, both signs, at the value site
    for ty in [0x50u8, 0x60] {
        for v in 0..=255u8 {
            let mut e = vec![0x77, 0x01, 0x01, 0x01, 0x01, 0x01];
            e.extend(int_enc(ty, &[v]));
            e.push(0x01);
            inputs.push(msg_with_entry(&e));
        }
        for v in 0..=65535u16 {
            if tier == Tier::Quick && v % 7 != 0 && v > 300 && v < 65200 && !(0x7f00..0x8100).contains(&v) {
                continue;
            }
            let mut e = vec![0x77, 0x01, 0x01, 0x01, 0x01, 0x01];
            e.extend(int_enc(ty, &v.to_be_bytes()));
            e.push(0x01);
            inputs.push(msg_with_entry(&e));
        }
    }
    // widths 1..9 x leading byte x fill at every integer site of an entry / message
    for w in 1..=9usize {
        for lead in [0x00u8, 0x01, 0x7f, 0x80, 0xfe, 0xff] {
            // fill 0x23 stands for the distinct bytes 23 45 67 89 ab cd ef 12 (a permutation of the
            // inner bytes changes the value)
            for fill in [0x00u8, 0xff, 0xa5, 0x23] {
                let mut b = vec![lead];
                if fill == 0x23 {
                    b.extend([0x23u8, 0x45, 0x67, 0x89, 0xab, 0xcd, 0xef, 0x12].iter().take(w - 1));
                } else {
                    b.extend(std::iter::repeat(fill).take(w - 1));
                }
                for ty in [0x50u8, 0x60] {
                    if w + 1 > 15 {
                        continue;
                    }
                    let enc = int_enc(ty, &b);
                    // value, status, unit, scaler, time-in-entry
                    let mut e = vec![0x77, 0x01, 0x01, 0x01, 0x01, 0x01];
                    e.extend(&enc);
                    e.push(0x01);
                    inputs.push(msg_with_entry(&e));
                    let mut e = vec![0x77, 0x01];
                    e.extend(&enc);
                    e.extend_from_slice(&[0x01, 0x01, 0x01, 0x62, 0x05, 0x01]);
                    inputs.push(msg_with_entry(&e));
                    let mut e = vec![0x77, 0x01, 0x01, 0x01];
                    e.extend(&enc);
                    e.extend_from_slice(&[0x01, 0x62, 0x05, 0x01]);
                    inputs.push(msg_with_entry(&e));
                    let mut e = vec![0x77, 0x01, 0x01, 0x01, 0x01];
                    e.extend(&enc);
                    e.extend_from_slice(&[0x62, 0x05, 0x01]);
                    inputs.push(msg_with_entry(&e));
                    // val_time: bare integer (workaround position) and inside the choice list
                    let mut e = vec![0x77, 0x01, 0x01];
                    e.extend(&enc);
                    e.extend_from_slice(&[0x01, 0x01, 0x62, 0x05, 0x01]);
                    inputs.push(msg_with_entry(&e));
                    let mut e = vec![0x77, 0x01, 0x01, 0x72, 0x62, 0x01];
                    e.extend(&enc);
                    e.extend_from_slice(&[0x01, 0x01, 0x62, 0x05, 0x01]);
                    inputs.push(msg_with_entry(&e));
                    let mut e = vec![0x77, 0x01, 0x01, 0x72];
                    e.extend(&enc);
                    e.extend_from_slice(&[0x62, 0x09, 0x01, 0x01, 0x62, 0x05, 0x01]);
                    inputs.push(msg_with_entry(&e));
                    // message level: group_no, abort_on_error, body tag, sml_version, checksum
                    for pos in 0..5 {
                        let mut body = vec![0x76, 0x03, 0x0a, 0x0b];
                        if pos == 0 { body.extend(&enc) } else { body.extend_from_slice(&[0x62, 0x00]) }
                        if pos == 1 { body.extend(&enc) } else { body.extend_from_slice(&[0x62, 0x00]) }
                        body.push(0x72);
                        if pos == 2 { body.extend(&enc) } else { body.extend_from_slice(&[0x63, 0x01, 0x01]) }
                        body.extend_from_slice(&[0x76, 0x01, 0x01, 0x02, 0x11, 0x02, 0x22, 0x01]);
                        if pos == 3 { body.extend(&enc) } else { body.push(0x01) }
                        let crc = crate::refm::crc_x25(&body).swap_bytes();
                        if pos == 4 { body.extend(&enc) } else { body.extend_from_slice(&[0x63, (crc >> 8) as u8, crc as u8]) }
                        body.push(0x00);
                        inputs.push(body);
                    }
                }
            }
        }
    }
    // numeric fields announcing an absurd width *and* carrying that many bytes (a width check done
    // in a narrower type would wrap: 257 = 1 mod 256 ...), at every integer site
    for w in [9usize, 15, 16, 17, 255, 256, 257, 258, 260, 264, 265, 512, 513, 520, 65537] {
        for ty in [Ty::Int, Ty::Uint] {
            let mut enc = Enc::new(&[]);
            enc.tlf(ty, w as u64, false);
            let mut field = enc.out.clone();
            field.extend(std::iter::repeat(0x01).take(w));
            let mut e = vec![0x77, 0x01, 0x01, 0x01, 0x01, 0x01];
            e.extend(&field);
            e.push(0x01);
            inputs.push(msg_with_entry(&e));
            let mut e = vec![0x77, 0x01];
            e.extend(&field);
            e.extend_from_slice(&[0x01, 0x01, 0x01, 0x62, 0x05, 0x01]);
            inputs.push(msg_with_entry(&e));
            let mut e = vec![0x77, 0x01, 0x01, 0x01];
            e.extend(&field);
            e.extend_from_slice(&[0x01, 0x62, 0x05, 0x01]);
            inputs.push(msg_with_entry(&e));
            let mut e = vec![0x77, 0x01, 0x01, 0x01, 0x01];
            e.extend(&field);
            e.extend_from_slice(&[0x62, 0x05, 0x01]);
            inputs.push(msg_with_entry(&e));
            let mut e = vec![0x77, 0x01, 0x01, 0x72, 0x62, 0x01];
            e.extend(&field);
            e.extend_from_slice(&[0x01, 0x01, 0x62, 0x05, 0x01]);
            inputs.push(msg_with_entry(&e));
            for pos in 0..5 {
                let mut body = vec![0x76, 0x03, 0x0a, 0x0b];
                if pos == 0 { body.extend(&field) } else { body.extend_from_slice(&[0x62, 0x00]) }
                if pos == 1 { body.extend(&field) } else { body.extend_from_slice(&[0x62, 0x00]) }
                body.push(0x72);
                if pos == 2 { body.extend(&field) } else { body.extend_from_slice(&[0x63, 0x01, 0x01]) }
                body.extend_from_slice(&[0x76, 0x01, 0x01, 0x02, 0x11, 0x02, 0x22, 0x01]);
                if pos == 3 { body.extend(&field) } else { body.push(0x01) }
                let crc = crate::refm::crc_x25(&body).swap_bytes();
                if pos == 4 { body.extend(&field) } else { body.extend_from_slice(&[0x63, (crc >> 8) as u8, crc as u8]) }
                body.push(0x00);
                inputs.push(body);
            }
        }
    }
    // a message whose checksum happens to fit one byte is found by search over the transaction id
    'search: for a in 0..=255u8 {
        for b in 0..=255u8 {
            let body = vec![0x76, 0x03, a, b, 0x62, 0x00, 0x62, 0x00, 0x72, 0x63, 0x02, 0x01, 0x71, 0x01];
            let crc = crate::refm::crc_x25(&body).swap_bytes();
            if crc < 256 {
                let mut x = body.clone();
                x.extend_from_slice(&[0x62, crc as u8, 0x00]);
                inputs.push(x);
                let mut x = body.clone();
                x.extend_from_slice(&[0x63, 0x00, crc as u8, 0x00]);
                inputs.push(x);
                break 'search;
            }
        }
    }
    // booleans: all 256 byte values, and boolean TLFs of other sizes
    for v in 0..=255u8 {
        inputs.push(msg_with_entry(&[0x77, 0x01, 0x01, 0x01, 0x01, 0x01, 0x42, v, 0x01]));
    }
    for t in [0x41u8, 0x43, 0x44, 0x4f, 0x40] {
        inputs.push(msg_with_entry(&[0x77, 0x01, 0x01, 0x01, 0x01, 0x01, t, 0x01, 0x01, 0x01]));
    }
    // octet strings of every length 0..300 at the value site and the obj_name site
    for l in 0..=300usize {
        let data: Vec<u8> = (0..l).map(|i| (i as u8).wrapping_mul(3) | 0x02).collect();
        let mut enc = Enc::new(&[]);
        enc.tlf(Ty::Octet, l as u64, false);
        let mut t = enc.out.clone();
        t.extend_from_slice(&data);
        let mut e = vec![0x77, 0x01, 0x01, 0x01, 0x01, 0x01];
        e.extend(&t);
        e.push(0x01);
        inputs.push(msg_with_entry(&e));
        let mut e = vec![0x77];
        e.extend(&t);
        e.extend_from_slice(&[0x01, 0x01, 0x01, 0x01, 0x62, 0x05, 0x01]);
        inputs.push(msg_with_entry(&e));
    }
    let parts = par_chunks(inputs.len() as u64, 256, |a, b| {
        let mut acc = Acc::new(&proto.report, proto.rename_c12);
        for i in a..b {
            acc.feed(&inputs[i as usize], "integers / booleans / octet strings at every admitting site");
        }
        acc
    });
    let mut acc = Acc::new(&proto.report, proto.rename_c12);
    for p in parts {
        acc.merge(p);
    }
    acc
}

// ------------------------------------------------------------------ drivers
pub fn replay(case: &J) -> Vec<Viol> {
    let x = case.get("input").and_then(|x| x.as_str()).and_then(unhex).unwrap_or_default();
    let rename = case.get("c12").is_some();
    check_input(&x)
        .findings
        .into_iter()
        .flat_map(|(c, w)| {
            let mut v = vec![e4_viol(c, w.clone(), &x)];
            // the same observation under the names the C03 / C12 checks give it
            if c.starts_with("C04") && c.contains("differ") {
                let alias = if c.contains("streaming") { "C03 streaming events do not carry exactly the content of a well-formed file" } else { "C03 allocating parser does not return exactly the content of a well-formed file" };
                v.push(e4_viol(alias, w.clone(), &x));
                v.push(e4_viol(&format!("C12 (type-length field / primitive value) {}", &alias[4..]), w.clone(), &x));
            }
            if c.starts_with("C03") || c.starts_with("C04") || rename {
                v.push(e4_viol(&format!("C12 (type-length field / primitive value) {}", &c[4..]), w, &x));
            }
            v
        })
        .collect()
}

fn golden_binding(ctx: &Ctx) -> u64 {
    // The independent reader against real meter data. Only the implementation-independent half
    // is a machinery condition (the reader must accept real transmissions); agreement with
    // complete::parse on them is checked as an ordinary input family ("real meter
    // transmissions"), so that a changed parser yields a VIOLATION, not a machinery exit.
    let real = real_payloads();
    let ok = real.iter().filter(|p| read_file(p).is_ok()).count() as u64;
    if real.is_empty() {
        ctx.log("golden binding: no real meter corpus found under /repo/tests/libsml-testing (skipped)");
    } else {
        ctx.log(&format!("golden binding: {} real transmissions de-framed from the repository's corpus, {} accepted by the independent reader", real.len(), ok));
        if ok * 10 < real.len() as u64 * 9 {
            machinery("golden binding: the independent reader rejects more than 10% of the real meter payloads");
        }
    }
    if !crate::alloc::self_test() {
        machinery("counting allocator is not installed");
    }
    ok
}
fn real_family(proto: &Acc) -> Acc {
    let real = real_payloads();
    let parts = par_chunks(real.len() as u64, 8, |a, b| {
        let mut acc = Acc::new(&proto.report, proto.rename_c12);
        for i in a..b {
            acc.feed(&real[i as usize], "real meter transmissions (repository corpus)");
        }
        acc
    });
    let mut acc = Acc::new(&proto.report, proto.rename_c12);
    for p in parts {
        acc.merge(p);
    }
    acc
}

pub fn run(prop: &'static str, tier: Tier) -> ! {
    let ctx = Ctx::new(prop, tier);
    let golden = golden_binding(&ctx);
    let report: Vec<&'static str> = match prop {
        "C03" => vec!["C03"],
        "C04" => vec!["C04"],
        "C06" => vec!["C06"],
        "C09" => vec!["C09"],
        "C12" => vec!["C12"],
        "C13" => vec!["C13"],
        _ => machinery("e4: unknown property"),
    };
    let proto = Acc::new(&report, prop == "C12");
    let mut all = Acc::new(&report, prop == "C12");
    let mut extra = J::obj();
    let seed_set = seeds(tier);
    let small_seeds: Vec<Vec<u8>> = seed_set.iter().filter(|s| s.len() <= 130).cloned().collect();
    let mut fam = |name: &str, a: Acc, all: &mut Acc| {
        ctx.log(&format!("{}: {} inputs, {} accepted by the reference, {} violation instances", name, a.n, a.accepted, a.tally.total()));
        all.merge(a);
    };
    fam("real meter transmissions", real_family(&proto), &mut all);
    match prop {
        "C03" => {
            let entries = entry_space(false);
            let files: Vec<RFile> = entries.into_iter().map(|e| vec![getlist(vec![e])]).collect();
            extra.put("abstract_entry_files", files.len());
            // quick: the full entry product with <= 1 non-default encoding choice, every 5th entry with <= 2
            fam("entry product x encodings (<= 1 choice)", gen_family(&files, 1, &proto, "generated: list-entry product x valid encodings"), &mut all);
            let sub: Vec<RFile> = files.iter().step_by(tier.pick(16, 1)).cloned().collect();
            fam("entry product x encodings (<= 2 choices)", gen_family(&sub, 2, &proto, "generated: list-entry product x valid encodings (two choices)"), &mut all);
            let msgs = message_space();
            extra.put("abstract_message_files", msgs.len());
            fam("message product x encodings", gen_family(&msgs, 2, &proto, "generated: message-level product x valid encodings"), &mut all);
            let few: Vec<RFile> = seeds_as_files();
            fam("seed files x 3 deviations", gen_family(&few, tier.pick(3, 4), &proto, "generated: seed files x up to 3-4 non-default choices"), &mut all);
            fam("byte-string fields x lengths", octet_field_sweep(&proto, tier), &mut all);
            // the derived families produce over a million well-formed files of unusual shape (the
            // reference reader accepts them): a parser rejecting one of them is a C03 matter
            fam("mutations", mutation_family(&seed_set, Tier::Thorough, &proto, tier == Tier::Thorough), &mut all);
            fam("splices", splice_family(&small_seeds, tier.pick(150, 2000), &proto), &mut all);
            fam("tlf replacements", tlf_replacement_family(&seed_set, &proto), &mut all);
            fam("checksum field variants", crc_field_family(&seed_set, &proto), &mut all);
            all.counts.require(&["encodings with non-default choices", "inputs the allocating parser accepts", "byte-string field x length files"]);
        }
        "C04" => {
            fam("short strings", short_strings_family(tier.pick(3, 4), &proto), &mut all);
            fam("structural strings", struct_strings_family(tier.pick(5, 7), &proto), &mut all);
            fam("mutations", mutation_family(&seed_set, Tier::Thorough, &proto, tier == Tier::Thorough), &mut all);
            fam("splices", splice_family(&small_seeds, tier.pick(150, 2000), &proto), &mut all);
            fam("tlf replacements", tlf_replacement_family(&seed_set, &proto), &mut all);
            fam("long tlfs", c12_long_tlfs(&proto), &mut all);
            fam("checksum field variants", crc_field_family(&seed_set, &proto), &mut all);
            fam("primitives", c12_primitives(&proto, Tier::Quick), &mut all);
            all.counts.require(&["checksum-repaired variants", "inputs the independent reader accepts", "inputs the independent reader rejects"]);
        }
        "C06" => {
            let (cal, worst) = calibration_family(&proto);
            extra.put("calibration_worst_heap_bytes_per_input_byte", worst);
            extra.put("bound", "largest request and peak live heap <= 4096 + 128*|x| inside complete::parse; 0 allocator calls while iterating streaming::Parser");
            fam("calibration", cal, &mut all);
            fam("tlf replacements", tlf_replacement_family(&seed_set, &proto), &mut all);
            fam("mutations", mutation_family(&seed_set, Tier::Thorough, &proto, tier == Tier::Thorough), &mut all);
            fam("short strings", short_strings_family(3, &proto), &mut all);
            fam("structural strings", struct_strings_family(tier.pick(5, 7), &proto), &mut all);
            fam("long tlfs", c12_long_tlfs(&proto), &mut all);
            let msgs = message_space();
            fam("message product", gen_family(&msgs, 1, &proto, "generated: message-level product x valid encodings"), &mut all);
            fam("splices", splice_family(&small_seeds, tier.pick(60, 600), &proto), &mut all);
            fam("over-declared lists", overdeclared_lists_family(&proto), &mut all);
            fam("checksum field variants", crc_field_family(&seed_set, &proto), &mut all);
            fam("primitives", c12_primitives(&proto, tier), &mut all);
            // totality also on the valid-file and type-length-field families of C03 / C12 (a panic on
            // one of those inputs is a C06 matter and is reported by this check only)
            let entries = entry_space(false);
            let files: Vec<RFile> = entries.into_iter().step_by(tier.pick(2, 1)).map(|e| vec![getlist(vec![e])]).collect();
            fam("entry product", gen_family(&files, 1, &proto, "generated: list-entry product x valid encodings"), &mut all);
            fam("byte-string fields x lengths", octet_field_sweep(&proto, tier), &mut all);
            fam("1-byte TLFs", c12_tlf_family(1, &[1, 2, 3, 4, 5, 6], &proto, "all 1-byte type-length fields at six grammar sites"), &mut all);
            fam("2-byte TLFs", c12_tlf_family(2, &[1, 2, 3, 4, 5, 6], &proto, "all 2-byte type-length fields at six grammar sites"), &mut all);
            if tier == Tier::Thorough {
                fam("3-byte TLFs", c12_tlf_family(3, &[2, 3, 4], &proto, "all 3-byte type-length fields"), &mut all);
            }
            all.counts.require(&["type-length field replaced by one declaring an arbitrary length", "inputs the allocating parser accepts"]);
        }
        "C09" | "C13" => {
            let entries = entry_space(false);
            let files: Vec<RFile> = entries.into_iter().step_by(tier.pick(3, 1)).map(|e| vec![getlist(vec![e])]).collect();
            fam("entry product", gen_family(&files, 1, &proto, "generated: list-entry product x valid encodings"), &mut all);
            if tier == Tier::Thorough {
                let sub: Vec<RFile> = files.iter().step_by(4).cloned().collect();
                fam("entry product (two choices)", gen_family(&sub, 2, &proto, "generated: list-entry product x valid encodings (two choices)"), &mut all);
            }
            fam("message product", gen_family(&message_space(), tier.pick(1, 2), &proto, "generated: message-level product x valid encodings"), &mut all);
            fam("short strings", short_strings_family(3, &proto), &mut all);
            fam("structural strings", struct_strings_family(tier.pick(5, 7), &proto), &mut all);
            fam("mutations", mutation_family(&seed_set, Tier::Thorough, &proto, tier == Tier::Thorough), &mut all);
            fam("splices", splice_family(&small_seeds, tier.pick(100, 2000), &proto), &mut all);
            fam("tlf replacements", tlf_replacement_family(&seed_set, &proto), &mut all);
            fam("long tlfs", c12_long_tlfs(&proto), &mut all);
            fam("over-declared lists", overdeclared_lists_family(&proto), &mut all);
            fam("checksum field variants", crc_field_family(&seed_set, &proto), &mut all);
            fam("primitives", c12_primitives(&proto, Tier::Quick), &mut all);
            fam("byte-string fields x lengths", octet_field_sweep(&proto, Tier::Quick), &mut all);
            all.counts.require(&["checksum-repaired variants", "inputs the independent reader accepts", "inputs the independent reader rejects"]);
        }
        "C12" => {
            fam("1-byte TLFs", c12_tlf_family(1, &[1, 2, 3, 4, 5, 6], &proto, "all 1-byte type-length fields at six grammar sites"), &mut all);
            fam("2-byte TLFs", c12_tlf_family(2, &[1, 2, 3, 4, 5, 6], &proto, "all 2-byte type-length fields at six grammar sites"), &mut all);
            let s3: &[u8] = tier.pick(&[2, 3, 4], &[1, 2, 3, 4, 5, 6]);
            fam("3-byte TLFs", c12_tlf_family(3, s3, &proto, "all 3-byte type-length fields"), &mut all);
            extra.put("three_byte_tlf_sites", s3.iter().map(|s| format!("s{}", s)).collect::<Vec<_>>());
            fam("long TLFs", c12_long_tlfs(&proto), &mut all);
            fam("primitives", c12_primitives(&proto, tier), &mut all);
            fam("checksum field variants", crc_field_family(&seed_set, &proto), &mut all);
            fam("byte-string fields x lengths", octet_field_sweep(&proto, tier), &mut all);
            all.counts.require(&["inputs the independent reader accepts", "inputs the independent reader rejects", "inputs the allocating parser accepts"]);
        }
        _ => unreachable!(),
    }
    ctx.log(&format!("total {} inputs; outcomes {:?}", all.n, all.counts.0));
    let mut samples: Vec<J> = all.samples.iter().map(|s| J::Str(s.clone())).collect();
    if samples.is_empty() {
        samples.push(J::Str(hex(&seed_set[0])));
        samples.push(J::Str(hex(&c12_input(3, &[0x83, 0x02], 0x30))));
    }
    let nontrivial = all.counts.get("inputs the independent reader accepts").min(all.n);
    let mut cov = J::obj()
        .set("states", all.n)
        .set("transitions", all.n * 3)
        .set("traces_validated_against_impl", all.n + golden)
        .set("golden_vectors", golden)
        .set("evaluations", all.n)
        .set("distinct_nontrivial", nontrivial)
        .set("rule", "grammar-directed exhaustive input families (see outcomes for the size of each); every input is read by the independent SML reader, complete::parse and the re-assembled streaming::Parser events under the counting allocator; states = inputs, transitions = parser executions; non-trivial = inputs the independent reader accepts as well-formed (the rest exercise rejection)")
        .set("samples", J::Arr(samples))
        .set("outcomes", all.counts.to_json())
        .set("worst_heap_bytes_per_input_byte_seen", all.worst_ratio)
        .set("exhaustive", true);
    if let J::Obj(o) = extra {
        for (k, v) in o {
            cov.put(&k, v);
        }
    }
    let assumptions = vec![
        "independent SML reader / generator (crate::sml) bound to the repository's real meter corpus at start-up and to each other (reader(encode(F)) == F on every generated input)".to_string(),
        "C06 constant: 4096 + 128*|x| bytes".to_string(),
        "64-bit host, features std+alloc; overflow checks and debug assertions on".to_string(),
    ];
    finish(&ctx, cov, assumptions, all.tally, &crate::replay_case)
}

fn seeds_as_files() -> Vec<RFile> {
    let e1 = REntry { obj_name: vec![1, 0, 1, 8, 0, 0xff], status: Some(RStatus::S16(0x0182)), val_time: Some(RTime::SecIndex(77)), unit: Some(30), scaler: Some(-1), value: RValue::I64(-123456789012), sig: Some(vec![1, 2, 3]) };
    let e3 = REntry { obj_name: vec![], status: Some(RStatus::S64(1 << 40)), val_time: None, unit: None, scaler: Some(3), value: RValue::ListTime(RTime::SecIndex(9)), sig: None };
    vec![vec![getlist(vec![e1])], vec![getlist(vec![e3])], vec![open_msg(), close_msg()]]
}
