//! Engine E5 — operation-sequence explorer for `ArrayBuf<N>` / `Vec<u8>` as `Buffer`
//! (C18): every sequence of push / extend_from_slice / truncate / clear up to depth
//! d against an ideal capacity-bounded vector; every written byte is a fresh value so
//! stale storage is distinguishable from live content.
use crate::dec::guarded;
use crate::json::J;
use crate::par::par_chunks;
use crate::report::{finish, machinery, Counts, Ctx, Tally, Tier, Viol};
use sml_rs::util::{ArrayBuf, Buffer, OutOfMemory};

#[derive(Clone, Copy, Debug, PartialEq, Eq)]
pub enum Op {
    Push,
    Extend(usize),
    Truncate(usize),
    Clear,
}
impl Op {
    fn token(self) -> String {
        match self {
            Op::Push => "push".into(),
            Op::Extend(n) => format!("extend{}", n),
            Op::Truncate(n) => format!("truncate{}", n),
            Op::Clear => "clear".into(),
        }
    }
    fn parse(s: &str) -> Option<Op> {
        if s == "push" {
            Some(Op::Push)
        } else if s == "clear" {
            Some(Op::Clear)
        } else if let Some(n) = s.strip_prefix("extend") {
            Some(Op::Extend(n.parse().ok()?))
        } else if let Some(n) = s.strip_prefix("truncate") {
            Some(Op::Truncate(n.parse().ok()?))
        } else {
            None
        }
    }
}
pub fn ops_for(n: usize) -> Vec<Op> {
    let mut v = vec![Op::Push];
    for l in 0..=n + 1 {
        v.push(Op::Extend(l));
    }
    for k in 0..=n + 1 {
        v.push(Op::Truncate(k));
    }
    v.push(Op::Clear);
    v
}
/// Operation alphabet for the second exploration: fewer ordinary operations, plus `truncate` with
/// arguments beyond every 8-, 16- and 32-bit width (k mod 2^w may be smaller than the length).
pub fn ops_wide(n: usize) -> Vec<Op> {
    let mut v = vec![Op::Push, Op::Extend(n.min(2)), Op::Extend(n), Op::Truncate(1), Op::Clear];
    for w in [8u32, 16, 32] {
        v.push(Op::Truncate(1usize << w));
        v.push(Op::Truncate((1usize << w) + 1));
    }
    v.push(Op::Truncate(usize::MAX));
    v.push(Op::Truncate((1usize << 63) + 2));
    v
}
/// Coarse operations for large capacities (contents longer than any small threshold, buffer not full).
pub fn ops_large(n: usize) -> Vec<Op> {
    vec![Op::Push, Op::Extend(1), Op::Extend(n / 2 + 1), Op::Extend(n - 3), Op::Extend(33), Op::Truncate(34), Op::Truncate(n / 2), Op::Truncate(2), Op::Clear]
}

/// Large slices for large capacities: lengths around 2^9, 2^12 and 2^16.
pub fn ops_huge(_n: usize) -> Vec<Op> {
    vec![Op::Push, Op::Extend(511), Op::Extend(512), Op::Extend(513), Op::Extend(4095), Op::Extend(4096), Op::Extend(4097), Op::Extend(65535), Op::Extend(65536), Op::Truncate(4096), Op::Truncate(1), Op::Clear]
}

/// Ideal capacity-bounded vector.
struct Ideal {
    v: Vec<u8>,
    cap: Option<usize>,
}
impl Ideal {
    fn push(&mut self, b: u8) -> Result<(), OutOfMemory> {
        if self.cap.map_or(false, |c| self.v.len() == c) {
            return Err(OutOfMemory);
        }
        self.v.push(b);
        Ok(())
    }
    fn extend(&mut self, s: &[u8]) -> Result<(), OutOfMemory> {
        if self.cap.map_or(false, |c| self.v.len() + s.len() > c) {
            return Err(OutOfMemory);
        }
        self.v.extend_from_slice(s);
        Ok(())
    }
}

/// An iterator over the given bytes that announces a chosen `size_hint` (always a truthful one:
/// lower <= number of items <= upper).
struct Hinted<'a> {
    it: core::iter::Copied<core::slice::Iter<'a, u8>>,
    lo_exact: bool,
    hi: Option<Option<usize>>, // None = exact, Some(x) = announce x (None = unbounded)
}
impl<'a> Iterator for Hinted<'a> {
    type Item = u8;
    fn next(&mut self) -> Option<u8> {
        self.it.next()
    }
    fn size_hint(&self) -> (usize, Option<usize>) {
        let n = self.it.len();
        (if self.lo_exact { n } else { 0 }, match self.hi {
            None => Some(n),
            Some(None) => None,
            Some(Some(extra)) => Some(n.saturating_add(extra)),
        })
    }
}
pub const COLLECT_VARIANTS: [&str; 8] = ["slice iter (exact hint)", "hint (0, None)", "hint (0, Some(n))", "hint (0, Some(n+1))", "hint (0, Some(usize::MAX))", "hint (n, None)", "filter adapter", "chain of two halves"];
fn collect_variant<C: FromIterator<u8>>(s: &[u8], variant: usize) -> C {
    let h = |lo_exact: bool, hi: Option<Option<usize>>| Hinted { it: s.iter().copied(), lo_exact, hi };
    match variant {
        0 => s.iter().copied().collect(),
        1 => h(false, Some(None)).collect(),
        2 => h(false, Some(Some(0))).collect(),
        3 => h(false, Some(Some(1))).collect(),
        4 => h(false, Some(Some(usize::MAX))).collect(),
        5 => h(true, Some(None)).collect(),
        6 => {
            // every byte passes; the adapter's hint is (0, Some(n + k)) with k dropped sentinels
            let mut with_gaps: Vec<(bool, u8)> = vec![];
            for (i, &b) in s.iter().enumerate() {
                if i % 3 == 1 {
                    with_gaps.push((false, 0xee));
                }
                with_gaps.push((true, b));
            }
            with_gaps.push((false, 0xee));
            with_gaps.into_iter().filter(|x| x.0).map(|x| x.1).collect()
        }
        _ => {
            let (a, b) = s.split_at(s.len() / 2);
            a.iter().copied().chain(b.iter().copied()).collect()
        }
    }
}

trait Subject: Buffer + core::fmt::Debug + PartialEq {
    const CAP: Option<usize>;
    fn collect_from(s: &[u8]) -> Self {
        Self::collect_variant(s, 0)
    }
    fn collect_variant(s: &[u8], variant: usize) -> Self;
}
impl<const N: usize> Subject for ArrayBuf<N> {
    const CAP: Option<usize> = Some(N);
    fn collect_variant(s: &[u8], variant: usize) -> Self {
        collect_variant(s, variant)
    }
}
impl Subject for Vec<u8> {
    const CAP: Option<usize> = None;
    fn collect_variant(s: &[u8], _variant: usize) -> Self {
        s.to_vec()
    }
}
/// Debug text under several format specifications.
fn debug_texts<T: core::fmt::Debug>(x: &T, all: bool) -> Vec<String> {
    if all {
        vec![format!("{:?}", x), format!("{:x?}", x), format!("{:#?}", x), format!("{:02X?}", x), format!("{:4?}", x)]
    } else {
        vec![format!("{:?}", x)]
    }
}

fn fresh_byte(k: u32) -> u8 {
    let h = k.wrapping_mul(0x9E37_79B1) ^ (k >> 7).wrapping_mul(0x85EB_CA6B);
    ((h >> 24) as u8) | 1 // never zero: distinguishable from never-written storage
}

/// Runs one operation sequence on a fresh subject; returns findings.
fn run_seq<S: Subject>(seq: &[Op], full_check: bool, out: &mut Vec<(&'static str, String)>, counts: &mut Counts) {
    let mut s = S::default();
    let mut ideal = Ideal { v: vec![], cap: S::CAP };
    // every written byte comes from a non-periodic sequence (a shifted or misplaced copy, also by
    // a multiple of 256 or of a page, does not reproduce the expected contents)
    let mut next_idx: u32 = 1;
    let mut fresh = |n: usize| -> Vec<u8> {
        let v: Vec<u8> = (0..n as u32).map(|i| fresh_byte(next_idx.wrapping_add(i))).collect();
        next_idx = next_idx.wrapping_add(n as u32);
        v
    };
    for (i, op) in seq.iter().enumerate() {
        let (got, want): (Result<(), OutOfMemory>, Result<(), OutOfMemory>) = match *op {
            Op::Push => {
                let b = fresh(1)[0];
                (s.push(b), ideal.push(b))
            }
            Op::Extend(n) => {
                let d = fresh(n);
                (s.extend_from_slice(&d), ideal.extend(&d))
            }
            Op::Truncate(k) => {
                s.truncate(k);
                let l = ideal.v.len().min(k);
                ideal.v.truncate(l);
                (Ok(()), Ok(()))
            }
            Op::Clear => {
                s.clear();
                ideal.v.clear();
                (Ok(()), Ok(()))
            }
        };
        if got.is_err() {
            counts.inc("operations answered OutOfMemory");
        }
        if got != want {
            out.push(("C18 operation result differs from the ideal bounded vector", format!("step {} {}: got {:?} want {:?}", i, op.token(), got, want)));
            return;
        }
        if &s[..] != &ideal.v[..] || s.len() != ideal.v.len() {
            out.push(("C18 visible contents differ from the ideal bounded vector", format!("after step {} {}: got {:?} want {:?}", i, op.token(), &s[..], ideal.v)));
            return;
        }
    }
    if full_check {
        let all_formats = ideal.v.len() <= 1024;
        let texts = debug_texts(&s, all_formats);
        for variant in 0..COLLECT_VARIANTS.len() {
            if S::CAP.is_none() && variant > 0 {
                break;
            }
            let c = S::collect_variant(&ideal.v, variant);
            counts.inc("collections from an iterator");
            if &c[..] != &ideal.v[..] {
                out.push(("C18 collecting an iterator does not yield exactly its bytes", format!("{}: {:?} vs {:?}", COLLECT_VARIANTS[variant], &c[..], ideal.v)));
                continue;
            }
            if !(c == s) || !(s == c) {
                out.push(("C18 equality depends on more than the visible contents", format!("contents {:?}: buffer reached by operations != buffer collected from the same bytes ({})", ideal.v, COLLECT_VARIANTS[variant])));
            }
            // the same visible contents reached by another history (other stale bytes behind the
            // logical length) must print identically, whatever the format specification
            if variant == 0 && debug_texts(&c, all_formats) != texts {
                out.push(("C18 Debug output depends on more than the visible contents", format!("{:?} (reached by operations) vs {:?} (collected from the same bytes)", s, c)));
            }
        }
        // ... and so must a buffer of another capacity holding the same contents
        if S::CAP.is_some() && ideal.v.len() <= 300 {
            let other: ArrayBuf<300> = ideal.v.iter().copied().collect();
            if debug_texts(&other, all_formats) != texts {
                out.push(("C18 Debug output depends on more than the visible contents", format!("{:?} vs {:?} (ArrayBuf<300> holding the same contents)", s, other)));
            }
            let other: ArrayBuf<301> = ideal.v.iter().copied().collect();
            if debug_texts(&other, all_formats) != texts {
                out.push(("C18 Debug output depends on more than the visible contents", format!("{:?} vs {:?} (ArrayBuf<301> holding the same contents)", s, other)));
            }
        }
        if texts == debug_texts(&ideal.v, all_formats) {
            counts.inc("Debug text equals that of the contents as a slice (informative, not demanded)");
        }
        // different contents must compare unequal
        if !ideal.v.is_empty() {
            let mut o = ideal.v.clone();
            o[0] ^= 0x80;
            if S::collect_from(&o) == s {
                out.push(("C18 buffers with different contents compare equal", format!("{:?} vs {:?}", o, ideal.v)));
            }
            let shorter = &ideal.v[..ideal.v.len() - 1];
            if S::collect_from(shorter) == s {
                out.push(("C18 buffers with different contents compare equal", format!("{:?} vs {:?}", shorter, ideal.v)));
            }
        }
        if S::CAP.map_or(true, |c| ideal.v.len() < c) {
            let mut longer = ideal.v.clone();
            longer.push(0);
            if S::collect_from(&longer) == s {
                out.push(("C18 buffers with different contents compare equal", format!("{:?} vs {:?}", longer, ideal.v)));
            }
        }
    }
}

fn seq_from_index(mut idx: u64, ops: &[Op], len: usize) -> Vec<Op> {
    let k = ops.len() as u64;
    let mut v = vec![Op::Clear; len];
    for i in (0..len).rev() {
        v[i] = ops[(idx % k) as usize];
        idx /= k;
    }
    v
}

fn explore<S: Subject>(name: &str, ops: Vec<Op>, depth: usize) -> (Tally, Counts, u64, u64) {
    let mut tally = Tally::new();
    let mut counts = Counts::default();
    let mut nseq = 0u64;
    let mut nops = 0u64;
    for len in 0..=depth {
        let total = (ops.len() as u64).pow(len as u32);
        let parts = par_chunks(total, 1 << 14, |a, b| {
            let mut t = Tally::new();
            let mut c = Counts::default();
            let mut out = vec![];
            for idx in a..b {
                let seq = seq_from_index(idx, &ops, len);
                out.clear();
                match guarded(|| {
                    let mut o = vec![];
                    let mut cc = Counts::default();
                    run_seq::<S>(&seq, true, &mut o, &mut cc);
                    (o, cc)
                }) {
                    Ok((o, cc)) => {
                        out.extend(o);
                        c.merge(&cc);
                    }
                    Err(p) => out.push(("C18 operation panics", p)),
                }
                for (class, what) in out.drain(..) {
                    let key = format!("{}:{}", name, seq.iter().map(|o| o.token()).collect::<Vec<_>>().join(","));
                    t.add(Viol {
                        class: class.to_string(),
                        key: key.clone(),
                        what,
                        case: J::obj().set("engine", "e5").set("subject", name).set("ops", seq.iter().map(|o| o.token()).collect::<Vec<_>>().join(" ")),
                        size: seq.len(),
                    });
                }
            }
            (t, c)
        });
        for (t, c) in parts {
            tally.merge(t);
            counts.merge(&c);
        }
        nseq += total;
        nops += total * len as u64;
    }
    (tally, counts, nseq, nops)
}

macro_rules! dispatch {
    ($n:expr, $f:ident, $($a:expr),*) => {
        match $n {
            0 => $f::<ArrayBuf<0>>($($a),*),
            1 => $f::<ArrayBuf<1>>($($a),*),
            2 => $f::<ArrayBuf<2>>($($a),*),
            3 => $f::<ArrayBuf<3>>($($a),*),
            4 => $f::<ArrayBuf<4>>($($a),*),
            6 => $f::<ArrayBuf<6>>($($a),*),
            40 => $f::<ArrayBuf<40>>($($a),*),
            64 => $f::<ArrayBuf<64>>($($a),*),
            300 => $f::<ArrayBuf<300>>($($a),*),
            1024 => $f::<ArrayBuf<1024>>($($a),*),
            4097 => $f::<ArrayBuf<4097>>($($a),*),
            8192 => $f::<ArrayBuf<8192>>($($a),*),
            70000 => $f::<ArrayBuf<70000>>($($a),*),
            _ => machinery("e5: capacity not instantiated"),
        }
    };
}

fn run_one(subject: &str, seq: &[Op]) -> Vec<(&'static str, String)> {
    let mut out = vec![];
    let mut c = Counts::default();
    let r = guarded(|| {
        let mut o = vec![];
        if subject == "Vec" {
            run_seq::<Vec<u8>>(seq, true, &mut o, &mut c);
        } else {
            let n: usize = subject.trim_start_matches("ArrayBuf<").trim_end_matches('>').parse().unwrap_or(0);
            dispatch!(n, run_seq, seq, true, &mut o, &mut c);
        }
        o
    });
    match r {
        Ok(o) => out.extend(o),
        Err(p) => out.push(("C18 operation panics", p)),
    }
    out
}

pub fn replay(case: &J) -> Vec<Viol> {
    let subject = case.get("subject").and_then(|s| s.as_str()).unwrap_or("Vec").to_string();
    let ops: Vec<Op> = case.get("ops").and_then(|s| s.as_str()).unwrap_or("").split_whitespace().filter_map(Op::parse).collect();
    run_one(&subject, &ops)
        .into_iter()
        .map(|(class, what)| Viol { class: class.to_string(), key: format!("{}:{}", subject, ops.iter().map(|o| o.token()).collect::<Vec<_>>().join(",")), what, case: case.clone(), size: ops.len() })
        .collect()
}

fn golden() -> u64 {
    // the scripted sequence of the repository's test_arraybuf::test_basic on the ideal vector
    let mut i = Ideal { v: vec![0, 1, 2], cap: Some(5) };
    assert!(i.push(10).is_ok() && i.push(20).is_ok() && i.push(30).is_err());
    assert_eq!(i.v, vec![0, 1, 2, 10, 20]);
    1
}

pub fn run(tier: Tier) -> ! {
    let ctx = Ctx::new("C18", tier);
    let g = golden();
    let mut tally = Tally::new();
    let mut counts = Counts::default();
    let mut nseq = 0u64;
    let mut nops = 0u64;
    let mut runs = vec![];
    // depth per capacity: the op alphabet has 2N+6 symbols
    let plan: Vec<(usize, usize)> = match tier {
        Tier::Quick => vec![(0, 7), (1, 7), (2, 6), (3, 6), (4, 6), (6, 5)],
        Tier::Thorough => vec![(0, 9), (1, 9), (2, 8), (3, 8), (4, 7), (6, 7)],
    };
    for (n, depth) in plan {
        let name = format!("ArrayBuf<{}>", n);
        let (t, c, s, o) = dispatch!(n, explore, &name, ops_for(n), depth);
        ctx.log(&format!("{}: {} sequences up to depth {} ({} operations), {} violation instances", name, s, depth, o, t.total()));
        runs.push(J::obj().set("subject", name).set("depth", depth).set("alphabet", 2 * n + 6).set("sequences", s));
        tally.merge(t);
        counts.merge(&c);
        nseq += s;
        nops += o;
    }
    // second exploration: truncate with huge arguments; third: large capacities with coarse operations
    for (n, depth) in [(3usize, tier.pick(5, 6)), (6, tier.pick(4, 5))] {
        let name = format!("ArrayBuf<{}>", n);
        let (t, c, s, o) = dispatch!(n, explore, &name, ops_wide(n), depth);
        ctx.log(&format!("{} with huge truncate arguments: {} sequences up to depth {}, {} violation instances", name, s, depth, t.total()));
        runs.push(J::obj().set("subject", name).set("depth", depth).set("alphabet", "push, extend, truncate(1), clear, truncate(2^8, 2^8+1, 2^16, 2^16+1, 2^32, 2^32+1, usize::MAX, 2^63+2)").set("sequences", s));
        tally.merge(t);
        counts.merge(&c);
        nseq += s;
        nops += o;
    }
    for (n, depth) in [(40usize, tier.pick(5, 6)), (64, tier.pick(4, 5)), (300, tier.pick(4, 5))] {
        let name = format!("ArrayBuf<{}>", n);
        let (t, c, s, o) = dispatch!(n, explore, &name, ops_large(n), depth);
        ctx.log(&format!("{} with coarse operations: {} sequences up to depth {}, {} violation instances", name, s, depth, t.total()));
        runs.push(J::obj().set("subject", name).set("depth", depth).set("alphabet", "push, extend(1 | N/2+1 | N-3 | 33), truncate(34 | N/2 | 2), clear").set("sequences", s));
        tally.merge(t);
        counts.merge(&c);
        nseq += s;
        nops += o;
    }
    for (n, depth) in [(1024usize, tier.pick(3, 4)), (4097, tier.pick(3, 4)), (8192, tier.pick(3, 4)), (70000, tier.pick(3, 4))] {
        let name = format!("ArrayBuf<{}>", n);
        let (t, c, s, o) = dispatch!(n, explore, &name, ops_huge(n), depth);
        ctx.log(&format!("{} with large slices: {} sequences up to depth {}, {} violation instances", name, s, depth, t.total()));
        runs.push(J::obj().set("subject", name).set("depth", depth).set("alphabet", "push, extend(511 | 512 | 513 | 4095 | 4096 | 4097 | 65535 | 65536), truncate(4096 | 1), clear").set("sequences", s));
        tally.merge(t);
        counts.merge(&c);
        nseq += s;
        nops += o;
    }
    {
        let depth = tier.pick(5, 6);
        let (t, c, s, o) = explore::<Vec<u8>>("Vec", ops_for(3), depth);
        ctx.log(&format!("Vec<u8> as Buffer: {} sequences up to depth {}, {} violation instances", s, depth, t.total()));
        runs.push(J::obj().set("subject", "Vec<u8>").set("depth", depth).set("sequences", s));
        tally.merge(t);
        counts.merge(&c);
        nseq += s;
        nops += o;
    }
    counts.require(&["operations answered OutOfMemory", "collections from an iterator"]);
    let cov = J::obj()
        .set("states", nseq)
        .set("transitions", nops)
        .set("traces_validated_against_impl", nseq + g)
        .set("golden_vectors", g)
        .set("evaluations", nseq)
        .set("distinct_nontrivial", nseq - 1)
        .set("rule", "every operation sequence over {push(fresh), extend_from_slice(0..N+1 fresh bytes), truncate(0..N+1), clear} up to the stated depth, no merging (states = sequences, transitions = operations executed on the real buffer and compared with the ideal vector after every step); at the end of every sequence: from_iter of the contents through 8 iterator shapes (exact, loose and unbounded size hints, filter, chain), == both ways with each, Debug text under 5 format specifications equal to that of a buffer holding the same contents after another history and of buffers of two other capacities, and inequality with three neighbouring contents; written bytes come from a non-periodic non-zero sequence; non-trivial = every non-empty sequence")
        .set("samples", vec!["push extend3 truncate1 push clear", "extend5 truncate2 extend3", "truncate4 push"])
        .set("runs", J::Arr(runs))
        .set("outcomes", counts.to_json())
        .set("exhaustive", true);
    finish(&ctx, cov, vec!["ideal bounded vector (Vec<u8> + capacity test)".into(), "capacities N in {0,1,2,3,4,6} with the full operation alphabet, {40,64,300} with coarse operations, {1024,4097,8192,70000} with slices of 511..65536 bytes; from_iter with more than N items panics by documented design and is outside the property".into()], tally, &replay)
}
