//! The checks served by engine E1: C02, C05, C08, C14, C17.
use crate::dec::{new_dec, BufKind, Dec, Out};
use crate::e1::*;
use crate::fe::{evs_short, run_frontends, Ev, FeSet};
use crate::json::{hex, unhex, J};
use crate::par::par_chunks;
use crate::refm::{canon, crc_x25, first_start_end, neutral_cut_offsets, START};
use crate::report::{Counts, Ctx, Tally, Tier, Viol};
use sml_rs::transport::DecodeErr;

fn assumptions() -> Vec<String> {
    vec![
        "byte classes {00,01,02,1a,1b,other} + state-adaptive checksum bytes are a complete alphabet for the transport decoder's control flow (DESIGN §4; VERIF_ALPHA=alt permutes the representatives)".into(),
        if crate::dec::HOOKS_BUILT {
            "verif_snapshot copies every field of the decoder (exact-state merging, checked by the hook-fidelity test; otherwise stateless); monitor = DESIGN §5".into()
        } else {
            "built without the verif-hooks feature: stateless exploration, decoders duplicated by replay, no merging; monitor = DESIGN §5".into()
        },
        "bounded depth in symbols (macro symbols are up to 4 bytes, whole-frame symbols 16-20 bytes)".into(),
        "64-bit host, features std+alloc+nb, overflow checks and debug assertions on".into(),
    ]
}

fn golden_monitor_binding(ctx: &Ctx, golden_findings: &mut Vec<Viol>) -> u64 {
    // the repository's own decode vectors through decoder + monitor: no alarm, and the
    // delivered payloads / discarded counts equal the tests' expectations
    let vecs: Vec<(&str, Vec<&str>)> = vec![
        ("1b1b1b1b 01010101 12345678 1b1b1b1b 1a00b87b", vec!["Ok(12345678)"]),
        ("1b1b1b1b 01010101 12345678 1b1b1b1b 1a00b8FF", vec![]),
        ("1b1b1b1b 01010101 12345678 FF 1b1b1b1b 1a0013b6", vec![]),
        ("1b1b1b1b 01010101 12345678 12345678 1b1b1b1b 1a04f950", vec![]),
        ("1b1b1b1b 01010101 1b1b1b1b 1a014FF4", vec![]),
        ("000102 1b1b1b1b 01010101 12345678 1b1b1b1b 1a00b87b 1234", vec!["DiscardedBytes(3)", "Ok(12345678)", "DiscardedBytes(2)"]),
        ("1b1b1b1b 01010101 123456", vec!["DiscardedBytes(11)"]),
        ("1b1b1b1b 01010101 12345678 1b1b1b1b 1c000000 12345678 1b1b1b1b 1a03be25", vec!["InvalidEsc([28, 0, 0, 0])", "DiscardedBytes(12)"]),
        ("1b1b1b1b 01010101 12345678 1b1b1b00 12345678 1b1b1b1b 1a009135", vec!["Ok(123456781b1b1b0012345678)"]),
        ("1b1b1b1b 01010101 09 87654321 1b1b1b1b 01010101 12345678 1b1b1b1b 1a00b87b", vec!["DiscardedBytes(13)", "Ok(12345678)"]),
        ("1b1b1b1b 01010101 12345600 1b1b1b1b 1a0191a5", vec!["Ok(123456)"]),
        ("1b1b1b1b 01010101 12 1b1b1b1b 1b1b1b1b 000000 1b1b1b1b 1a03be25", vec!["Ok(121b1b1b1b)"]),
        ("1b1b1b1b 01010101 12345678 1234561b 1b1b1b1b 1a00361a", vec!["Ok(123456781234561b)"]),
        ("1b1b1b1b 01010101 12345678 12341b1b 1b1b1b1b 1a001ac5", vec!["Ok(1234567812341b1b)"]),
        ("1b1b1b1b 01010101 12345678 121b1b1b 1b1b1b1b 1a000ba4", vec!["Ok(12345678121b1b1b)"]),
        ("1b1b1b1b 01010101 12345678 12345601 1b1b1b1b 1a012157", vec![]),
        ("1b1b1b1b 01010101 12345678 12000100 1b1b1b1b 1a03297e", vec![]),
        ("1b1b1b1b 01010101 12345678 12ff0000 1b1b1b1b 1a03a743", vec![]),
        ("1b1b1b1b 01010101 120000 1b1b1b1b 01010101 87654321 1b1b1b1b 1a00423c", vec!["DiscardedBytes(11)", "Ok(87654321)"]),
        ("1b1b1b1b 01010101 120000 1b1b1b1b 01010101 1b1b1b1b 1a00c6e5", vec!["DiscardedBytes(11)", "Ok()"]),
        ("1b1b1b1b 01010101 12000000 1b1b1b1b 1a01e1b1", vec!["Ok(120000)"]),
    ];
    let mut n = 0;
    for (h, exp) in vecs {
        let s = unhex(h).unwrap();
        let r = crate::mon::mon_run(BufKind::Vec, &s, &[]);
        // Monitor alarms on these vectors are reported as ordinary findings of the run (the
        // implementation may have been changed); only a disagreement with the repository's own
        // expectations - which its test suite would show as well - is a machinery condition.
        for (class, what) in &r.findings {
            golden_findings.push(Viol {
                class: class.to_string(),
                key: format!("golden:{}", h.replace(' ', "")),
                what: format!("repository test vector {}: {}", h, what),
                case: J::obj().set("engine", "e1").set("mode", "bytes").set("buf", "Vec").set("bytes", h.replace(' ', "")),
                size: s.len(),
            });
        }
        if !exp.is_empty() && r.findings.is_empty() {
            let got: Vec<String> = r.events.iter().map(|e| e.short()).collect();
            if got != exp.iter().map(|s| s.to_string()).collect::<Vec<_>>() {
                crate::report::machinery(&format!("golden binding: vector {} gives {:?}, repository expects {:?} (does the repository's own test suite still pass?)", h, got, exp));
            }
        }
        n += 1;
    }
    ctx.log(&format!("golden binding: {} decode vectors of the repository's tests replayed under the monitor without alarm", n));
    n + hook_fidelity(ctx)
}

fn hooks_incomplete(ctx: &Ctx, why: &str) -> u64 {
    crate::dec::HOOKS_COMPLETE.store(false, std::sync::atomic::Ordering::Relaxed);
    ctx.log(&format!("WARNING hook fidelity: {} - the hooks do not carry the complete decoder state. Falling back to STATELESS exploration: decoders are duplicated by replaying their history, states are never merged, depth bounds are reduced", why));
    0
}

/// The hooks are only as good as they are complete: every state within three symbols of the two
/// roots is duplicated (`verif_clone`) and rebuilt from its snapshot (`verif_restore`), and the
/// original, the duplicate and the rebuilt decoder must answer four continuations identically.
/// A field of the decoder that the hooks do not carry shows up here as a machinery exit instead of
/// silently making E1's state merging unsound.
#[cfg(not(feature = "hooks"))]
pub fn hook_fidelity(ctx: &Ctx) -> u64 {
    ctx.log("WARNING: built WITHOUT the repository's verif-hooks feature (it did not compile against this tree). STATELESS exploration: decoders are duplicated by replaying their history, states are never merged, depth bounds are reduced");
    0
}
#[cfg(feature = "hooks")]
pub fn hook_fidelity(ctx: &Ctx) -> u64 {
    use sml_rs::transport::Decoder;
    if !crate::dec::hooks_complete() {
        return 0;
    }
    if std::env::var("VERIF_FORCE_STATELESS").is_ok() {
        return hooks_incomplete(ctx, "forced by VERIF_FORCE_STATELESS");
    }
    let alpha = full_alphabet();
    let conts: Vec<Vec<Sym>> = vec![vec![Sym::Frame(1)], vec![Sym::PadLie(1), Sym::Fin], vec![Sym::Esc, Sym::Tail(0), Sym::Reset], vec![Sym::B(0x1b), Sym::Esc, Sym::Som, Sym::B(0x00), Sym::Esc, Sym::Tail(3)]];
    let mut n = 0u64;
    for root in [vec![], vec![Sym::Esc, Sym::Som]] {
        let mut paths: Vec<Vec<Sym>> = vec![root.clone()];
        for _ in 0..3 {
            let mut next = vec![];
            for p in &paths {
                for &s in &alpha {
                    let mut q = p.clone();
                    q.push(s);
                    next.push(q);
                }
            }
            for p in next.iter().step_by(3) {
                let (node, _) = rebuild(BufKind::Vec, p);
                let snap = node.dec.snap();
                let restored: Box<dyn Dec> = match Decoder::<Vec<u8>>::verif_restore(&snap.to_hook()) {
                    Some(d) => Box::new(d),
                    None => return hooks_incomplete(ctx, &format!("verif_restore fails on the state after [{}]", path_str(p))),
                };
                if restored.snap() != snap || node.dec.dup().snap() != snap {
                    return hooks_incomplete(ctx, &format!("snapshot not reproduced after [{}]", path_str(p)));
                }
                for c in &conts {
                    let mut outs = vec![];
                    for mut d in [node.dec.dup(), node.dec.dup().dup(), restored.dup()] {
                        let mut mon = crate::mon::Mon::new(None);
                        let mut o = vec![];
                        let mut nd = Node { dec: d.dup(), mon: mon.clone(), kind: BufKind::Vec };
                        let mut g = Gen2::default();
                        for &s in c {
                            let mut info = StepInfo::default();
                            info.want_outs = true;
                            nd.apply(s, &mut info, &mut g);
                            o.push(info.outs);
                        }
                        let _ = (&mut d, &mut mon);
                        outs.push(o);
                    }
                    if outs[0] != outs[1] || outs[0] != outs[2] {
                        return hooks_incomplete(ctx, &format!("a duplicated / restored decoder behaves differently from its original after [{}] on continuation [{}]", path_str(p), path_str(c)));
                    }
                    n += 1;
                }
            }
            paths = next;
        }
    }
    ctx.log(&format!("hook fidelity: {} (state, continuation) pairs: original, verif_clone and verif_restore agree", n));
    n
}

fn base_cfg(prop: &str, kind: BufKind, depth: usize, report: Vec<&'static str>, ctx: &Ctx) -> Cfg {
    // stateless fallback (incomplete hooks): no merging, so the bound is what 18^d paths allow
    let depth = if crate::dec::hooks_complete() { depth } else { depth.min(5) };
    Cfg {
        kind,
        alphabet: full_alphabet(),
        depth,
        roots: vec![vec![], vec![Sym::Esc, Sym::Som]],
        idle_only: false,
        collect_boundaries: false,
        report,
        prop: prop.to_string(),
        seed: ctx.seed,
        rss_cap_states: std::env::var("VERIF_STATE_CAP").ok().and_then(|s| s.parse().ok()).unwrap_or(600_000_000),
    }
}

struct Acc {
    tally: Tally,
    states: u64,
    transitions: u64,
    counts: Counts,
    other: Counts,
    runs: Vec<J>,
    exhaustive: bool,
    samples: Vec<J>,
    golden: Vec<Viol>,
}
impl Acc {
    fn new() -> Acc {
        Acc { tally: Tally::new(), states: 0, transitions: 0, counts: Counts::default(), other: Counts::default(), runs: vec![], exhaustive: true, samples: vec![], golden: vec![] }
    }
    /// monitor alarms on the repository's own vectors count like any other finding of this property
    fn absorb_golden(&mut self, report: &[&str]) {
        for v in std::mem::take(&mut self.golden) {
            if report.iter().any(|p| v.class.starts_with(p)) {
                self.tally.add(v);
            } else {
                self.other.inc(&v.class);
            }
        }
    }
    fn add(&mut self, name: &str, cfg: &Cfg, ex: Explored) {
        self.states += ex.states;
        self.transitions += ex.transitions;
        self.counts.merge(&ex.counts);
        self.other.merge(&ex.other_findings);
        if ex.capped.is_some() {
            self.exhaustive = false;
        }
        for s in &ex.samples {
            if self.samples.len() < 8 {
                self.samples.push(J::obj().set("buffer", cfg.kind.name()).set("ops", s));
            }
        }
        self.runs.push(states_json(&ex).set("run", name).set("buffer", cfg.kind.name()).set("depth_bound", cfg.depth).set("alphabet_size", cfg.alphabet.len()));
        self.tally.merge(ex.tally);
    }
    fn coverage(&self, golden: u64, rule: &str) -> J {
        let nontrivial = self.counts.get("frames delivered")
            + self.counts.get("frames rejected")
            + self.counts.get("in-frame restarts")
            + self.counts.get("start sequences detected")
            + self.counts.get("distinct boundary states")
            + self.counts.get("directed cases with noise or cut");
        J::obj()
            .set("states", self.states)
            .set("transitions", self.transitions)
            .set("traces_validated_against_impl", self.transitions + golden)
            .set("golden_vectors", golden)
            .set("evaluations", self.transitions)
            .set("distinct_nontrivial", nontrivial)
            .set("rule", rule)
            .set("samples", J::Arr(if self.samples.is_empty() { vec![J::Str("(see runs)".into())] } else { self.samples.clone() }))
            .set("outcomes", self.counts.to_json())
            .set("findings_of_other_properties_seen", self.other.to_json())
            .set("runs", J::Arr(self.runs.clone()))
            .set("hooks_built", crate::dec::HOOKS_BUILT)
            .set("hooks_complete", crate::dec::hooks_complete())
            .set("exhaustive", self.exhaustive)
    }
}

const RULE: &str = "breadth-first over operation strings (6 byte classes, state-adaptive checksum bytes CLO/CHI, macro symbols ESC SOM TAIL0-4 TAILX, FINALIZE, RESET) from the roots new() and new()+start sequence; a state is the full decoder snapshot plus the monitor state, merged only on exact equality; every transition is one execution of the real decoder checked against the monitor; non-trivial = transitions on which a start sequence was detected, a frame delivered or rejected, an in-frame restart happened, plus distinct boundary states / directed noise cases";

/// Multi-frame streams under the monitor (no merging): up to `nmax` frames with noise, rejected and
/// aborted frames in between; also the concatenation corollary of C14 (decoding s1·s2 equals
/// decoding s1, then s2 with a new decoder, whenever s1 ends at a boundary).
fn many_frames(acc: &mut Acc, report: &[&'static str], nmax: usize) {
    let items: Vec<(usize, usize)> = (1..=nmax).flat_map(|n| (0..4).map(move |v| (n, v))).collect();
    let parts = par_chunks(items.len() as u64, 4, |a, b| {
        let mut t = Tally::new();
        let mut c = Counts::default();
        for i in a..b {
            let (n, variant) = items[i as usize];
            let (stream, delivered, ends) = crate::e2::many_frames_stream_ends(n, variant);
            for kind in [BufKind::Vec, BufKind::Arr(16)] {
                let r = crate::mon::mon_run(kind, &stream, &[]);
                c.inc("multi-frame streams run under the monitor");
                let mk = |class: &str, what: String| Viol {
                    class: class.to_string(),
                    key: format!("{}:frames={},variant={}", kind.name(), n, variant),
                    what,
                    case: J::obj().set("engine", "e1").set("mode", "bytes").set("buf", kind.name()).set("bytes", hex(&stream)),
                    size: stream.len(),
                };
                for (class, what) in &r.findings {
                    if report.iter().any(|p| class.starts_with(p)) {
                        t.add(mk(class, what.clone()));
                    }
                }
                // C14 corollary: decoding s1·s2 = decoding s1, then s2 on a new decoder, for every split at
                // a transmission boundary (all splits for short streams, three for long ones)
                if report.iter().any(|p| *p == "C14") && kind == BufKind::Vec {
                    let whole = crate::fe::fe_push::<Vec<u8>>(&stream).events;
                    let splits: Vec<usize> = if ends.len() <= 24 { ends.clone() } else { vec![ends[2], ends[ends.len() / 2], ends[ends.len() - 2]] };
                    for k in splits {
                        let mut cat = crate::fe::fe_push::<Vec<u8>>(&stream[..k]).events;
                        cat.extend(crate::fe::fe_push::<Vec<u8>>(&stream[k..]).events);
                        c.inc("concatenation splits compared");
                        if cat != whole {
                            let mut v = mk(
                                "C14 decoding a concatenation of transmissions differs from concatenating the decodings",
                                format!("{} frames, variant {}, split after byte {}: whole stream gives {} results ending {}, the two parts give {} results ending {}", n, variant, k, whole.len(), evs_short(&whole[whole.len().saturating_sub(2)..]), cat.len(), evs_short(&cat[cat.len().saturating_sub(2)..])),
                            );
                            v.case = J::obj().set("engine", "e1").set("mode", "c14split").set("bytes", hex(&stream)).set("split", k);
                            t.add(v);
                            break;
                        }
                    }
                }
                let got: Vec<&Vec<u8>> = r.events.iter().filter_map(|e| if let Ev::Msg(m) = e { Some(m) } else { None }).collect();
                if got != delivered.iter().collect::<Vec<_>>() && report.iter().any(|p| *p == "C14" || *p == "C08") {
                    t.add(mk(
                        "C14 decoding a concatenation of transmissions differs from concatenating the decodings",
                        format!("{} frames, variant {}: {} of {} payloads delivered in order", n, variant, got.len(), delivered.len()),
                    ));
                }
            }
        }
        (t, c)
    });
    for (t, c) in parts {
        acc.tally.merge(t);
        acc.counts.merge(&c);
    }
    let n = acc.counts.get("multi-frame streams run under the monitor");
    acc.transitions += n;
    acc.states += n;
}

/// Directed family for byte values outside the six classes in the one place where the decoder
/// dispatches on a byte *value*: the first byte after an escape prefix. A canonical frame gets the
/// foreign escape sequence `1b1b1b1b k a b c` spliced in at every neutral offset, for every k, with
/// the trailer recomputed both ways a lenient decoder might hash it (with / without the spliced
/// bytes). The monitor decides what is right; nothing is expected of the implementation a priori.
fn foreign_escapes(acc: &mut Acc, report: &[&'static str]) {
    let payloads: Vec<Vec<u8>> = vec![vec![], vec![0x55], vec![0x55; 4], vec![0, 0, 0, 0], vec![0x55, 0x1b, 0x1b, 0x1b, 0x1b, 0x55], vec![0x01, 0x02, 0x1a, 0x00, 0x55, 0x00, 0x00, 0x03]];
    let mut items: Vec<(usize, usize)> = vec![];
    let mut frames = vec![];
    for (pi, p) in payloads.iter().enumerate() {
        let f = canon(p);
        let pad = f[f.len() - 3] as usize;
        let esc_end = f.len() - 8 - pad;
        for o in crate::refm::neutral_cut_offsets(p) {
            if o >= 8 && o <= esc_end {
                items.push((pi, o));
            }
        }
        frames.push((f, esc_end));
    }
    let parts = par_chunks(items.len() as u64, 1, |a, b| {
        let mut t = Tally::new();
        let mut c = Counts::default();
        for i in a..b {
            let (pi, o) = items[i as usize];
            let (f, esc_end) = &frames[pi];
            for k in 0..=255u8 {
                for abc in [[0u8, 0, 0], [k, k, k], [0x55, 0x55, 0x55], [1, 1, 1], [0x1b, 0x1b, 0x1b]] {
                    for hash_spliced in [true, false] {
                        let mut body = f[..o].to_vec();
                        body.extend_from_slice(&[0x1b, 0x1b, 0x1b, 0x1b, k, abc[0], abc[1], abc[2]]);
                        body.extend_from_slice(&f[o..*esc_end]);
                        let pad = (4 - body.len() % 4) % 4;
                        body.extend(std::iter::repeat(0).take(pad));
                        body.extend_from_slice(&[0x1b, 0x1b, 0x1b, 0x1b, 0x1a, pad as u8]);
                        let crc = if hash_spliced {
                            crate::refm::crc_x25(&body)
                        } else {
                            let mut h = body[..o].to_vec();
                            h.extend_from_slice(&body[o + 8..]);
                            crate::refm::crc_x25(&h)
                        };
                        body.extend_from_slice(&crc.to_le_bytes());
                        // a valid frame behind it: the decoder must be back in step whatever it made of the first
                        body.extend_from_slice(&canon(&[0x42]));
                        for kind in [BufKind::Vec, BufKind::Arr(8)] {
                            let r = crate::mon::mon_run(kind, &body, &[]);
                            c.inc("frames with a foreign escape sequence spliced in");
                            if r.events.iter().any(|e| matches!(e, Ev::Msg(_))) {
                                c.inc("foreign-escape streams with a delivered frame");
                            }
                            for (class, what) in &r.findings {
                                if report.iter().any(|p| class.starts_with(p)) {
                                    t.add(Viol {
                                        class: class.to_string(),
                                        key: format!("{}:foreign-escape k={:02x} {:02x?} at {} of payload {} hash_spliced={}", kind.name(), k, abc, o, pi, hash_spliced),
                                        what: what.clone(),
                                        case: J::obj().set("engine", "e1").set("mode", "bytes").set("buf", kind.name()).set("bytes", hex(&body)),
                                        size: body.len(),
                                    });
                                }
                            }
                        }
                    }
                }
            }
        }
        (t, c)
    });
    for (t, c) in parts {
        acc.tally.merge(t);
        acc.counts.merge(&c);
    }
    let n = acc.counts.get("frames with a foreign escape sequence spliced in");
    acc.transitions += n;
    acc.states += n;
}

// ------------------------------------------------------------------ C02
pub fn run_c02(tier: Tier) -> ! {
    let ctx = Ctx::new("C02", tier);
    let mut gf = vec![];
    let golden = golden_monitor_binding(&ctx, &mut gf);
    let mut acc = Acc::new();
    acc.golden = gf;
    acc.absorb_golden(&["C02"]);
    let d = std::env::var("VERIF_DEPTH").ok().and_then(|s| s.parse().ok()).unwrap_or(tier.pick(6usize, 7));
    for (kind, depth) in [(BufKind::Vec, d), (BufKind::Arr(3), d), (BufKind::Arr(0), d + 1), (BufKind::Arr(1), d)] {
        let cfg = base_cfg("C02", kind, depth, vec!["C02"], &ctx);
        let ex = explore(&cfg, &ctx);
        acc.add("soundness", &cfg, ex);
    }
    // idle histories in which a leak would sit (aborted frames with withheld zeros, partial escape,
    // errors, then a noise byte): soundness of whatever is accepted next
    let z = Sym::B(0x00);
    let n55 = plain_bytes()[5];
    let stale_roots: Vec<Vec<Sym>> = vec![
        vec![Sym::Esc, Sym::Som, z, z, Sym::Reset, n55],
        vec![Sym::Esc, Sym::Som, z, z, z, Sym::Fin, n55],
        vec![Sym::Esc, Sym::Som, z, Sym::Esc, n55, n55, n55, n55, n55],
        vec![Sym::Esc, Sym::Som, z, z, Sym::Esc, Sym::TailX, n55],
        vec![Sym::Esc, Sym::Som, n55, z, z, Sym::Esc, Sym::Tail(1), n55],
        vec![Sym::Esc, Sym::Som, Sym::Esc, Sym::B(0x1a), Sym::Reset, n55],
    ];
    for (kind, depth) in [(BufKind::Vec, d.saturating_sub(1)), (BufKind::Arr(1), d.saturating_sub(1))] {
        let cfg = Cfg { roots: stale_roots.clone(), ..base_cfg("C02", kind, depth, vec!["C02"], &ctx) };
        let ex = explore(&cfg, &ctx);
        acc.add("soundness after aborted frames", &cfg, ex);
    }
    many_frames(&mut acc, &["C02"], tier.pick(300, 1000));
    wide_alphabet(&mut acc, "C02", vec!["C02"], tier.pick(4, 5), &ctx);
    foreign_escapes(&mut acc, &["C02"]);
    acc.counts.require(&["frames delivered", "frames rejected", "in-frame restarts", "start sequences detected"]);
    let mut cov = acc.coverage(golden, RULE);
    if let Ok(path) = std::env::var("XCHECK_JSON") {
        // written by /verif/xcheck (stateright 0.31 BFS over the same transition relation)
        match std::fs::read_to_string(&path).ok().and_then(|t| crate::json::parse(&t).ok()) {
            Some(j) => {
                if j.get("all_equal") != Some(&J::Bool(true)) {
                    crate::report::machinery("stateright cross-check: state counts differ from E1's");
                }
                cov.put("stateright_crosscheck", j);
            }
            None => crate::report::machinery("stateright cross-check: result file unreadable"),
        }
    }
    finish_e1(&ctx, cov, assumptions(), acc.tally)
}

/// The same product exploration over a *wider* byte alphabet (14 byte values instead of 6), to a
/// smaller depth: a defect keyed on a byte value outside the six classes (a comparison turned into
/// a range, a new special value) has representatives here.
fn wide_alphabet(acc: &mut Acc, prop: &str, report: Vec<&'static str>, depth: usize, ctx: &Ctx) {
    let mut alpha = full_alphabet();
    for b in [0x03u8, 0x04, 0x19, 0x1c, 0x7f, 0x80, 0x9b, 0xfe] {
        alpha.push(Sym::B(b));
    }
    alpha.push(Sym::B(if plain_bytes()[5] == Sym::B(0x55) { 0xff } else { 0x55 }));
    let cfg = Cfg { alphabet: alpha, ..base_cfg(prop, BufKind::Vec, depth, report, ctx) };
    let ex = explore(&cfg, ctx);
    acc.add("wide byte alphabet", &cfg, ex);
}

/// See the call site: a transmission in progress longer than 2^32 bytes, cut short by a start sequence.
pub fn giant_in_frame() -> Option<(String, String)> {
    // VERIF_GIANT_L: a smaller length, for trying the procedure out
    let l: u64 = std::env::var("VERIF_GIANT_L").ok().and_then(|s| s.parse().ok()).unwrap_or((1u64 << 32) + 5);
    let mut d = new_dec(BufKind::Vec);
    let mut bad: Option<(String, String)> = None;
    let mut feed = |d: &mut Box<dyn Dec>, b: u8, want: Option<&Out>, at: &str| -> bool {
        let o = d.push(b);
        let ok = match want {
            None => o == Out::None,
            Some(w) => &o == w,
        };
        if !ok && bad.is_none() {
            let class = if matches!(o, Out::Panic(_)) { "C05 M-total: panic" } else { "C17 discarded-bytes count wrong for a transmission longer than 2^32 bytes" };
            bad = Some((class.to_string(), format!("{}: got {}, expected {}", at, o.short(), want.map_or("Ok(None)".to_string(), |w| w.short()))));
        }
        ok
    };
    let mut ok = true;
    for b in START {
        ok = ok && feed(&mut d, b, None, "start sequence");
    }
    let mut i = 0u64;
    while ok && i < l {
        ok = feed(&mut d, if i % 4 == 3 { 0x00 } else { 0x55 }, None, "inside the long transmission");
        i += 1;
    }
    for (k, b) in START.iter().enumerate() {
        if !ok {
            break;
        }
        let want = Out::Err(DecodeErr::DiscardedBytes((l + 8) as usize));
        ok = feed(&mut d, *b, if k == 7 { Some(&want) } else { None }, "second start sequence after 2^32+5 bytes of an unfinished transmission");
    }
    let f = canon(&[0x42]);
    for (k, b) in f[8..].iter().enumerate() {
        if !ok {
            break;
        }
        let want = Out::Msg(vec![0x42]);
        ok = feed(&mut d, *b, if k == f.len() - 9 { Some(&want) } else { None }, "the frame after the abandoned transmission");
    }
    drop(d);
    bad
}

// ------------------------------------------------------------------ C05 / C17
fn run_sub() -> Vec<Sym> {
    vec![Sym::B(0x00), Sym::B(0x01), Sym::B(0x1a), Sym::B(0x1b), Sym::B(0x55), Sym::Esc, Sym::Som, Sym::Tail(0), Sym::Fin, Sym::Reset]
}
pub fn run_c05_c17(prop: &'static str, tier: Tier) -> ! {
    let ctx = Ctx::new(prop, tier);
    let mut gf = vec![];
    let golden = golden_monitor_binding(&ctx, &mut gf);
    // a counter that panics on overflow in this (checked) build is a counter that is not exact (C17)
    let report: Vec<&'static str> = if prop == "C17" { vec!["C17", "C05 M-total: panic"] } else { vec![prop] };
    let mut acc = Acc::new();
    acc.golden = gf;
    acc.absorb_golden(&report);
    let wrap_phase = std::env::var("VERIF_PHASE").as_deref() == Ok("wrap");
    if !wrap_phase {
        let dv = tier.pick(6, 7);
        let df = tier.pick(5, 7);
        // tiny buffers have small state spaces: they are explored deeper
        for (kind, depth) in [
            (BufKind::Vec, dv),
            (BufKind::Arr(0), df + 3),
            (BufKind::Arr(1), df + 2),
            (BufKind::Arr(2), df + 1),
            (BufKind::Arr(3), df),
            (BufKind::Arr(4), df),
            (BufKind::Arr(5), df),
            (BufKind::Arr(8), df),
        ] {
            let cfg = base_cfg(prop, kind, depth, report.clone(), &ctx);
            let ex = explore(&cfg, &ctx);
            acc.add("all operations", &cfg, ex);
        }
    }
    // long runs: exactly one RUN symbol anywhere in a short path (no merging)
    let mut run_cfgs = vec![
        RunCfg { kind: BufKind::Vec, sub: run_sub(), runs: runs(), max_len: tier.pick(4, 5), max_runs: 1, report: report.clone(), root_len: 0 },
        RunCfg { kind: BufKind::Arr(2), sub: run_sub(), runs: runs(), max_len: tier.pick(3, 4), max_runs: 1, report: report.clone(), root_len: 0 },
    ];
    if tier == Tier::Thorough {
        let two: Vec<Sym> = vec![Sym::Run(0x55, 65535), Sym::Run(0x55, 65536), Sym::Run(0x1b, 65535), Sym::Run(0x1b, 65536)];
        run_cfgs.push(RunCfg { kind: BufKind::Vec, sub: run_sub(), runs: two, max_len: 4, max_runs: 2, report: report.clone(), root_len: 0 });
    }
    if !crate::dec::hooks_complete() {
        for rc in run_cfgs.iter_mut() {
            rc.max_len = rc.max_len.min(3);
        }
    }
    for rc in &run_cfgs {
        let (mut tally, mut counts, mut other, mut transitions, mut with_run) = explore_runs(rc, &[]);
        // the same paths started inside a frame
        let r2 = explore_runs(rc, &[Sym::Esc, Sym::Som]);
        tally.merge(r2.0);
        counts.merge(&r2.1);
        other.merge(&r2.2);
        transitions += r2.3;
        with_run += r2.4;
        ctx.log(&format!("{} RUN paths (len <= {}, <= {} RUN): {} transitions, {} after a RUN, violations {}", rc.kind.name(), rc.max_len, rc.max_runs, transitions, with_run, tally.total()));
        acc.states += transitions; // no merging: every path prefix is its own state
        acc.transitions += transitions;
        acc.counts.merge(&counts);
        acc.counts.addn("transitions after a long run", with_run);
        acc.other.merge(&other);
        acc.runs.push(
            J::obj()
                .set("run", "long-run paths (stateless, no merging)")
                .set("buffer", rc.kind.name())
                .set("max_len", rc.max_len)
                .set("max_runs", rc.max_runs)
                .set("run_symbols", rc.runs.iter().map(|s| s.token()).collect::<Vec<_>>())
                .set("transitions", transitions),
        );
        acc.tally.merge(tally);
    }
    if tier == Tier::Thorough && !wrap_phase {
        // Counters of 32 bits: one noise run beyond 2^32 bytes before a start sequence, before
        // finalize and inside a frame (four directed paths, one thread each; 4.3e9 push_byte calls each)
        let giant: Vec<Vec<Sym>> = vec![
            vec![Sym::Run(0x55, (1u64 << 32) + 37), Sym::Esc, Sym::Som, Sym::Esc, Sym::Tail(0)],
            vec![Sym::Run(0x1b, (1u64 << 32) - 1), Sym::B(0x1b), Sym::Som, Sym::Fin],
            vec![Sym::Run(0x00, 1u64 << 32), Sym::Fin],
            vec![Sym::Esc, Sym::Som, Sym::Run(0x00, (1u64 << 32) + 2), Sym::Reset],
        ];
        let in_frame_thread = std::thread::spawn(giant_in_frame);
        let res = par_chunks(giant.len() as u64, 1, |a, _b| {
            // same rule as exploration and replay: stop at the first finding that leaves monitor and
            // decoder out of step (e.g. a panic)
            let p = &giant[a as usize];
            let mut n = Node::new(BufKind::Arr(1));
            let mut g = Gen2::default();
            let mut findings = vec![];
            for &s in p {
                let mut info = StepInfo::default();
                n.apply(s, &mut info, &mut g);
                g.1.clear();
                let desync = info.findings.iter().any(|(c, _)| crate::mon::is_desync(c));
                findings.extend(info.findings);
                if desync {
                    break;
                }
            }
            findings
        });
        for (p, findings) in giant.iter().zip(res) {
            acc.transitions += p.len() as u64;
            acc.counts.inc("directed paths with a run of more than 2^32 bytes");
            for (class, what) in findings {
                if report.iter().any(|r| class.starts_with(r)) {
                    acc.tally.add(Viol {
                        class: class.to_string(),
                        key: format!("ArrayBuf<1>:{}", path_str(p).replace(' ', ",")),
                        what,
                        case: J::obj().set("engine", "e1").set("mode", "path").set("buf", "ArrayBuf<1>").set("path", path_str(p)),
                        size: p.len(),
                    });
                }
            }
        }
        // ... and a transmission in progress that is itself longer than 2^32 bytes (growable buffer;
        // the fixed-buffer paths above leave the frame after a few bytes), cut short by a new start
        // sequence: the count reported is the length of the abandoned transmission. Directed
        // expectation, no monitor (it would have to hold the 4 GiB frame as well).
        {
            let bad = in_frame_thread.join().unwrap_or_else(|_| crate::report::machinery("giant in-frame path: thread panicked"));
            acc.transitions += 1;
            acc.counts.inc("directed paths with a run of more than 2^32 bytes");
            if let Some((class, what)) = bad {
                if report.iter().any(|r| class.starts_with(r)) {
                    acc.tally.add(Viol { class, key: "Vec:in-frame 2^32+5".into(), what, case: J::obj().set("engine", "e1").set("mode", "giant_in_frame"), size: 5 });
                }
            }
        }
        ctx.log("giant runs (> 2^32 bytes): done");
    }
    if prop == "C05" && !wrap_phase {
        // encoders: totality incl. payloads >= 2^16 (panic classes of the C07 sweep)
        let longs = crate::e2::long_payloads(tier, &crate::e2::PI);
        let parts = par_chunks(longs.len() as u64, 16, |a, b| {
            let mut t = Tally::new();
            let mut c = Counts::default();
            let mut out = vec![];
            for i in a..b {
                out.clear();
                crate::e2::c07_payload(&longs[i as usize], &mut out, &mut c);
                for v in out.drain(..) {
                    if v.class.starts_with("C05") {
                        t.add(v);
                    }
                }
                // all decoder front-ends on the frame: no panic, no hang (growable buffer, and the
                // largest fixed buffer for payloads that fit it: counters inside ArrayBuf)
                let f = canon(&longs[i as usize]);
                let mut trs = run_frontends(BufKind::Vec, &f, FeSet::All);
                if longs[i as usize].len() > 8192 && longs[i as usize].len() <= 65537 {
                    trs.extend(run_frontends(BufKind::Arr(65537), &f, FeSet::Core));
                }
                for tr in trs {
                    c.inc("front-end runs on long frames");
                    for e in &tr.events {
                        if matches!(e, Ev::Panic(_) | Ev::Hang) {
                            t.add(Viol {
                                class: "C05 front-end panics or hangs".into(),
                                key: format!("long-payload#{}:{}", i, tr.name),
                                what: e.short(),
                                case: J::obj().set("engine", "e2").set("check", "C05fe").set("payload", hex(&longs[i as usize])),
                                size: longs[i as usize].len(),
                            });
                        }
                    }
                }
            }
            (t, c)
        });
        for (t, c) in parts {
            acc.tally.merge(t);
            acc.counts.merge(&c);
        }
        {
            let mut out = vec![];
            crate::e2::c07_unbounded(&mut out, &mut acc.counts);
            for v in out {
                if v.class.starts_with("C05") {
                    acc.tally.add(v);
                }
            }
        }
        acc.transitions += longs.len() as u64 * 4;
        // driver loops under byte-source faults: see E3 (C11/C15) which also report panics
    }
    if !wrap_phase {
        many_frames(&mut acc, &report, tier.pick(300, 1000));
        wide_alphabet(&mut acc, prop, report.clone(), tier.pick(4, 5), &ctx);
        foreign_escapes(&mut acc, &report);
        if prop == "C05" {
            // failures of the allocator behind a Vec buffer: an error value, not an abort
            for v in crate::e2::allocfail_findings(&report, &mut acc.counts) {
                acc.tally.add(v);
            }
        }
        acc.counts.require(&["frames delivered", "frames rejected", "finalize calls", "reset calls", "transitions after a long run"]);
    }
    if wrap_phase {
        // child mode: print a one-line summary for the parent and exit with the verdict
        let n = acc.tally.total();
        println!("WRAP-PHASE transitions={} violations={}", acc.transitions, n);
        for (class, (cnt, vs)) in &acc.tally.classes {
            println!("WRAP-VIOLATION {} x{} e.g. {}", class, cnt, vs[0].key);
        }
        std::process::exit(if n > 0 { 1 } else { 0 });
    }
    if prop == "C17" && tier == Tier::Thorough {
        wrap_phase_child(&ctx, &mut acc);
    }
    let cov = acc.coverage(golden, RULE);
    finish_e1(&ctx, cov, assumptions(), acc.tally)
}

/// C17 thorough: repeat the long-run paths in a build without overflow checks, where a
/// wrapped counter shows up as a wrong number instead of a panic.
fn wrap_phase_child(ctx: &Ctx, acc: &mut Acc) {
    let exe = std::env::current_exe().unwrap();
    let wrap = exe.parent().unwrap().parent().unwrap().join("wrap").join("smlmc");
    if !wrap.exists() {
        crate::report::machinery(&format!("wrap-profile binary {} missing (./check builds it for C17 thorough)", wrap.display()));
    }
    let out = std::process::Command::new(&wrap)
        .args(["check", "C17", "thorough"])
        .env("VERIF_PHASE", "wrap")
        .output()
        .unwrap_or_else(|e| crate::report::machinery(&format!("cannot run {}: {}", wrap.display(), e)));
    let txt = String::from_utf8_lossy(&out.stdout).to_string();
    ctx.log(&format!("wrap phase: {}", txt.lines().find(|l| l.starts_with("WRAP-PHASE")).unwrap_or("(no summary)")));
    let mut seen_summary = false;
    for l in txt.lines() {
        if let Some(rest) = l.strip_prefix("WRAP-PHASE transitions=") {
            seen_summary = true;
            let t: u64 = rest.split_whitespace().next().and_then(|x| x.parse().ok()).unwrap_or(0);
            acc.transitions += t;
            acc.counts.addn("transitions in the build without overflow checks", t);
        }
        if let Some(rest) = l.strip_prefix("WRAP-VIOLATION ") {
            let key = rest.rsplit("e.g. ").next().unwrap_or("").to_string();
            let (buf, path) = key.split_once(':').unwrap_or(("Vec", ""));
            acc.tally.add(Viol {
                class: format!("(build without overflow checks) {}", rest.split(" x").next().unwrap_or(rest)),
                key: key.clone(),
                what: "observed in the wrap-profile build (overflow-checks=false); replay with harness/target/wrap/smlmc".into(),
                case: J::obj().set("engine", "e1").set("mode", "wrap").set("buf", buf).set("path", path.replace(',', " ")),
                size: path.len(),
            });
        }
    }
    if !seen_summary {
        crate::report::machinery(&format!("wrap phase produced no summary (exit {:?}): {}", out.status.code(), String::from_utf8_lossy(&out.stderr)));
    }
}

// ------------------------------------------------------------------ C08
/// Behavioural comparison of two decoders that have both just seen a start sequence.
pub fn differs_after_start(a: &dyn Dec, b: &dyn Dec) -> Option<String> {
    let mut conts: Vec<Vec<u8>> = vec![];
    for i in 0..crate::e2::count_upto(5, 2) {
        let m = crate::e2::nth_string(i, &crate::e2::PI);
        conts.push(canon(&m)[8..].to_vec());
    }
    for k in 1..=3u8 {
        let mut f = START.to_vec();
        f.extend_from_slice(&[0x55; 4]);
        f.extend_from_slice(&[0x1b, 0x1b, 0x1b, 0x1b, 0x1a, k]);
        let c = crc_x25(&f);
        f.extend_from_slice(&c.to_le_bytes());
        conts.push(f[8..].to_vec());
    }
    for c in conts {
        if let Some(d) = lockstep(a.dup().as_mut(), b.dup().as_mut(), &c) {
            return Some(format!("continuation {} : {}", hex(&c), d));
        }
    }
    None
}
/// Feeds `bytes` to both decoders, then finalizes both; first difference if any.
pub fn lockstep(a: &mut dyn Dec, b: &mut dyn Dec, bytes: &[u8]) -> Option<String> {
    for (i, &x) in bytes.iter().enumerate() {
        let (oa, ob) = (a.push(x), b.push(x));
        if oa != ob {
            return Some(format!("at byte {}: {} vs {}", i, oa.short(), ob.short()));
        }
    }
    let (fa, fb) = (a.finalize(), b.finalize());
    if fa != fb {
        return Some(format!("finalize: {:?} vs {:?}", fa, fb));
    }
    None
}

/// idle histories as (name, byte prefix, op after the prefix: 0 none, 1 finalize, 2 reset, buffer)
fn histories() -> Vec<(&'static str, Vec<u8>, u8, BufKind)> {
    let mut bad_crc = canon(&[0x55]);
    let l = bad_crc.len();
    bad_crc[l - 1] ^= 0x01;
    let mut inv_esc = START.to_vec();
    inv_esc.extend_from_slice(&[0x1b, 0x1b, 0x1b, 0x1b, 0x55, 0x55, 0x55, 0x55]);
    let mut oom = START.to_vec();
    oom.extend_from_slice(&[0x55, 0x55]);
    let mut partial = START.to_vec();
    partial.extend_from_slice(&[0x55, 0x00, 0x00]);
    let mut partial_esc = START.to_vec();
    partial_esc.extend_from_slice(&[0x55, 0x1b, 0x1b, 0x1b, 0x1b, 0x1a]);
    vec![
        ("new", vec![], 0, BufKind::Vec),
        ("after a delivered frame", canon(&[0x55, 0x00]), 0, BufKind::Vec),
        ("after InvalidMessage", bad_crc, 0, BufKind::Vec),
        ("after InvalidEsc", inv_esc, 0, BufKind::Vec),
        ("after OutOfMemory", oom, 0, BufKind::Arr(1)),
        ("after finalize in noise", vec![0x55, 0x1b, 0x1b], 1, BufKind::Vec),
        ("after finalize in a frame with withheld zeros", partial.clone(), 1, BufKind::Vec),
        ("after reset in a frame with withheld zeros", partial, 2, BufKind::Vec),
        ("after reset inside an escape sequence", partial_esc, 2, BufKind::Vec),
        ("after reset in a partial start sequence", vec![0x1b, 0x1b, 0x1b, 0x1b, 0x01, 0x01], 2, BufKind::Vec),
        ("after finalize on a delivered frame", canon(&[]), 1, BufKind::Arr(4)),
    ]
}

fn c08_viol(class: &str, what: String, hist: usize, g: &[u8], m: &[u8], cut: Option<(Vec<u8>, usize)>) -> Viol {
    let mut case = J::obj().set("engine", "e1").set("mode", "c08b").set("history", hist).set("noise", hex(g)).set("payload", hex(m));
    let key;
    if let Some((p, off)) = &cut {
        case.put("cut_payload", hex(p));
        case.put("cut_offset", *off);
        key = format!("cut:{}@{}+{}", hex(p), off, hex(m));
    } else {
        key = format!("h{}:noise={}:m={}", hist, hex(g), hex(m));
    }
    Viol { class: class.into(), key, what, case, size: g.len() * 10 + m.len() + hist }
}

/// Directed case (b): history, admissible noise, frame.
fn c08_case(hi: usize, g: &[u8], m: &[u8], out: &mut Vec<Viol>, counts: &mut Counts) {
    let hs = histories();
    let (_name, prefix, op, kind) = &hs[hi];
    if kind.cap().map_or(false, |c| m.len() > c) {
        return; // the frame must fit the buffer of this history's decoder
    }
    let frame = canon(m);
    let mut want: Vec<Ev> = vec![];
    if !g.is_empty() {
        want.push(Ev::Dec(DecodeErr::DiscardedBytes(g.len())));
    }
    want.push(Ev::Msg(m.to_vec()));
    // push decoder (all histories)
    let mut d = new_dec(*kind);
    for &b in prefix {
        d.push(b);
    }
    match op {
        1 => {
            let _ = d.finalize();
        }
        2 => {
            let _ = d.reset();
        }
        _ => {}
    }
    let mut got = vec![];
    for &b in g.iter().chain(frame.iter()) {
        match d.push(b) {
            Out::None => {}
            Out::Msg(x) => got.push(Ev::Msg(x)),
            Out::Err(e) => got.push(Ev::Dec(e)),
            Out::Panic(p) => got.push(Ev::Panic(p)),
        }
    }
    if let Ok(Some(e)) = d.finalize() {
        got.push(Ev::Dec(e));
    }
    counts.inc("directed runs");
    if got != want {
        out.push(c08_viol(
            "C08 resynchronisation: noise + valid frame after an idle history not reported as [DiscardedBytes(|noise|), Ok(payload)]",
            format!("history '{}' ({}), noise {}, payload {}: expected {} got {}", hs[hi].0, kind.name(), hex(g), hex(m), evs_short(&want), evs_short(&got)),
            hi,
            g,
            m,
            None,
        ));
    }
    // black box through the other front-ends for byte-expressible histories
    if *op == 0 {
        let mut stream = prefix.clone();
        stream.extend_from_slice(g);
        stream.extend_from_slice(&frame);
        let pre = run_frontends(*kind, prefix, FeSet::Core);
        let all = run_frontends(*kind, &stream, FeSet::All);
        // expectation = what the push decoder reports for the history (minus its final leftover) ++ want
        let mut base = pre[0].events.clone();
        if let Some(Ev::Dec(DecodeErr::DiscardedBytes(_))) = base.last() {
            // only histories that end at a boundary are used, so there is no leftover
            return;
        }
        base.extend(want.iter().cloned());
        for t in all {
            counts.inc("directed runs");
            if t.normalized() != base {
                out.push(c08_viol(
                    "C08 resynchronisation: noise + valid frame after an idle history not reported as [DiscardedBytes(|noise|), Ok(payload)]",
                    format!("{} ({}), history '{}', noise {}, payload {}: expected {} got {}", t.name, kind.name(), hs[hi].0, hex(g), hex(m), evs_short(&base), evs_short(&t.events)),
                    hi,
                    g,
                    m,
                    None,
                ));
            }
        }
    }
}
/// Directed case (c): frame of `p` cut at a neutral offset, followed by the frame of `m`.
fn c08_cut_case(p: &[u8], off: usize, m: &[u8], out: &mut Vec<Viol>, counts: &mut Counts) {
    let f = canon(p);
    let mut stream = f[..off].to_vec();
    stream.extend_from_slice(&canon(m));
    // the same stream with every small fixed capacity, judged by the monitor (the cut-off frame may
    // overflow first): whatever happens before, the complete frame must be delivered if it fits
    for n in 0..=6usize {
        if m.len() > n {
            continue;
        }
        let kind = BufKind::Arr(n);
        let r = crate::mon::mon_run(kind, &stream, &[]);
        counts.inc("cut-off runs");
        let delivered = r.events.last() == Some(&Ev::Msg(m.to_vec())) && r.pos.last() == Some(&stream.len());
        let mon_bad: Vec<String> = r.findings.iter().filter(|(c, _)| c.starts_with("C08") || c.starts_with("C01 M-complete")).map(|(c, w)| format!("{}: {}", c, w)).collect();
        if !delivered || !mon_bad.is_empty() {
            let mut v = c08_viol(
                "C08 cut-off frame followed by a complete frame: the complete frame is not delivered (small fixed buffer)",
                format!("{}: frame of {} cut after {} bytes, then frame of {}: events {} {}", kind.name(), hex(p), off, hex(m), evs_short(&r.events), mon_bad.join("; ")),
                0,
                &[],
                m,
                Some((p.to_vec(), off)),
            );
            v.key = format!("{} N={}", v.key, n);
            out.push(v);
        }
    }
    let want = vec![Ev::Dec(DecodeErr::DiscardedBytes(off)), Ev::Msg(m.to_vec())];
    for t in run_frontends(BufKind::Vec, &stream, FeSet::Core).into_iter().chain(run_frontends(BufKind::Arr(8), &stream, FeSet::Core)) {
        counts.inc("cut-off runs");
        if t.normalized() != want {
            out.push(c08_viol(
                "C08 cut-off frame followed by a complete frame not reported as [DiscardedBytes(cut), Ok(payload)]",
                format!("{}: frame of {} cut after {} bytes, then frame of {}: expected {} got {}", t.name, hex(p), off, hex(m), evs_short(&want), evs_short(&t.events)),
                0,
                &[],
                m,
                Some((p.to_vec(), off)),
            ));
        }
    }
}
pub fn replay_c08b(case: &J) -> Vec<Viol> {
    let mut out = vec![];
    let mut c = Counts::default();
    let m = case.get("payload").and_then(|x| x.as_str()).and_then(unhex).unwrap_or_default();
    if let Some(p) = case.get("cut_payload").and_then(|x| x.as_str()).and_then(unhex) {
        let off = case.get("cut_offset").and_then(|x| x.as_i()).unwrap_or(8) as usize;
        c08_cut_case(&p, off, &m, &mut out, &mut c);
    } else {
        let hi = case.get("history").and_then(|x| x.as_i()).unwrap_or(0) as usize;
        let g = case.get("noise").and_then(|x| x.as_str()).and_then(unhex).unwrap_or_default();
        c08_case(hi, &g, &m, &mut out, &mut c);
    }
    out
}

pub fn run_c08(tier: Tier) -> ! {
    let ctx = Ctx::new("C08", tier);
    let mut gf = vec![];
    let golden = golden_monitor_binding(&ctx, &mut gf);
    let mut acc = Acc::new();
    acc.golden = gf;
    // a result reported while idle and before any start sequence means the decoder was not ready for
    // the next frame: that is this property's business as well as C17's
    let report = vec!["C08", "C01 M-complete", "C17 M-tile: output while idle"];
    acc.absorb_golden(&report);
    // (a) all noise, all idle histories, by state: idle-only exploration over the plain bytes
    let idle_roots: Vec<Vec<Sym>> = vec![
        vec![],
        vec![Sym::Esc, Sym::Som, Sym::Esc, Sym::Tail(0)],
        vec![Sym::Esc, Sym::Som, Sym::Esc, Sym::TailX],
        vec![Sym::Esc, Sym::Som, Sym::Esc, Sym::B(0x55), Sym::B(0x55), Sym::B(0x55), Sym::B(0x55)],
        vec![Sym::B(0x55), Sym::Reset],
        vec![Sym::Esc, Sym::Som, Sym::B(0x00), Sym::Fin],
        vec![Sym::Esc, Sym::Som, Sym::B(0x00), Sym::Reset],
        vec![Sym::Esc, Sym::Som, Sym::Esc, Sym::B(0x1a), Sym::Reset],
        vec![Sym::Esc, Sym::B(0x01), Sym::Fin],
    ];
    for kind in [BufKind::Vec, BufKind::Arr(1)] {
        let mut roots = idle_roots.clone();
        if kind == BufKind::Arr(1) {
            roots.push(vec![Sym::Esc, Sym::Som, Sym::B(0x55), Sym::B(0x55)]);
        }
        let idle_depth = if crate::dec::hooks_complete() { tier.pick(24, 40) } else { 8 };
        let cfg = Cfg { alphabet: plain_bytes(), depth: idle_depth, roots, idle_only: true, ..base_cfg("C08", kind, 0, report.clone(), &ctx) };
        let ex = explore(&cfg, &ctx);
        acc.add("idle-phase exploration: every noise string over the byte classes", &cfg, ex);
        // the same with byte values next to and far from the start sequence's 1b / 01 (a matcher
        // that compares loosely - masked bits, ranges - accepts one of them)
        let mut wide = plain_bytes();
        for b in [0x03u8, 0x09, 0x11, 0x1c, 0x3b, 0x5b, 0x7f, 0x80, 0x81, 0x9b, 0xfe, 0xff] {
            if !wide.contains(&Sym::B(b)) {
                wide.push(Sym::B(b));
            }
        }
        let cfg = Cfg { alphabet: wide, depth: if crate::dec::hooks_complete() { tier.pick(10, 12) } else { 5 }, roots: idle_roots.clone(), idle_only: true, ..base_cfg("C08", kind, 0, report.clone(), &ctx) };
        let ex = explore(&cfg, &ctx);
        acc.add("idle-phase exploration over a wide byte alphabet", &cfg, ex);
    }
    // general exploration (in-frame restarts, frames after errors) reporting the C08 classes; tiny
    // fixed buffers as well: OutOfMemory histories, restarts and end sequences that have to flush
    // withheld zeros into a full buffer
    for (kind, depth) in [(BufKind::Vec, tier.pick(6, 7)), (BufKind::Arr(0), tier.pick(8, 9)), (BufKind::Arr(1), tier.pick(7, 8)), (BufKind::Arr(2), tier.pick(6, 7)), (BufKind::Arr(3), tier.pick(5, 6))] {
        let cfg = base_cfg("C08", kind, depth, report.clone(), &ctx);
        let ex = explore(&cfg, &ctx);
        acc.add("all operations", &cfg, ex);
    }
    // (b) black box: idle histories x admissible noise x frame
    let k = tier.pick(5u32, 7);
    let nh = histories().len();
    let sigma: Vec<u8> = plain_bytes().iter().map(|s| if let Sym::B(b) = s { *b } else { 0 }).collect();
    let nnoise = crate::e2::count_upto(6, k);
    let nm = crate::e2::count_upto(5, 2);
    let parts = par_chunks(nnoise, 64, |a, b| {
        let mut t = Tally::new();
        let mut c = Counts::default();
        let mut out = vec![];
        for gi in a..b {
            let g = crate::e2::nth_string(gi, &sigma);
            let mut gs = g.clone();
            gs.extend_from_slice(&START);
            if first_start_end(&gs) != Some(gs.len()) {
                c.inc("noise strings skipped (contain a start sequence)");
                continue;
            }
            c.inc("admissible noise strings");
            for hi in 0..nh {
                for mi in 0..nm {
                    let m = crate::e2::nth_string(mi, &crate::e2::PI);
                    out.clear();
                    c08_case(hi, &g, &m, &mut out, &mut c);
                    if !g.is_empty() {
                        c.inc("directed cases with noise or cut");
                    }
                    for v in out.drain(..) {
                        t.add(v);
                    }
                }
            }
        }
        (t, c)
    });
    for (t, c) in parts {
        acc.tally.merge(t);
        acc.counts.merge(&c);
    }
    // (c) cut-off frames
    let np = crate::e2::count_upto(5, tier.pick(5, 7));
    let parts = par_chunks(np, 16, |a, b| {
        let mut t = Tally::new();
        let mut c = Counts::default();
        let mut out = vec![];
        for pi in a..b {
            let p = crate::e2::nth_string(pi, &crate::e2::PI);
            for off in neutral_cut_offsets(&p) {
                for mi in 0..nm {
                    let m = crate::e2::nth_string(mi, &crate::e2::PI);
                    out.clear();
                    c08_cut_case(&p, off, &m, &mut out, &mut c);
                    c.inc("directed cases with noise or cut");
                    for v in out.drain(..) {
                        t.add(v);
                    }
                }
            }
        }
        (t, c)
    });
    for (t, c) in parts {
        acc.tally.merge(t);
        acc.counts.merge(&c);
    }
    many_frames(&mut acc, &report, tier.pick(300, 1000));
    let directed = acc.counts.get("directed runs") + acc.counts.get("cut-off runs");
    acc.transitions += directed;
    acc.states += acc.counts.get("directed cases with noise or cut");
    ctx.log(&format!("directed: {} runs, outcomes {:?}", directed, acc.counts.0));
    acc.counts.require(&["start sequences detected", "admissible noise strings", "cut-off runs", "frames delivered"]);
    acc.samples.push(J::obj().set("directed", "history 'after InvalidEsc' + noise 1b1b1b1b01 + frame of 55"));
    let cov = acc.coverage(golden, RULE);
    finish_e1(&ctx, cov, assumptions(), acc.tally)
}

// ------------------------------------------------------------------ C14
fn cont_alphabet() -> Vec<Sym> {
    let mut a = full_alphabet();
    a.extend([Sym::Frame(0), Sym::Frame(1), Sym::Frame(2), Sym::PadLie(1), Sym::PadLie(2)]);
    a
}
struct Pair {
    l: Box<dyn Dec>,
    r: Box<dyn Dec>,
}
fn apply_pair(p: &mut Pair, s: Sym, adapt_lhs: bool, gens: &mut Vec<u8>) -> Option<String> {
    match s {
        Sym::Fin => {
            let (a, b) = (p.l.finalize(), p.r.finalize());
            if a != b {
                return Some(format!("finalize: {:?} vs new decoder {:?}", a, b));
            }
        }
        Sym::Reset => {
            let (a, b) = (p.l.reset(), p.r.reset());
            if a != b {
                return Some(format!("reset: {:?} vs new decoder {:?}", a, b));
            }
        }
        Sym::Run(b, n) => {
            for _ in 0..n {
                let (a, c) = (p.l.push(b), p.r.push(b));
                if a != c {
                    return Some(format!("{} vs new decoder {}", a.short(), c.short()));
                }
            }
        }
        _ => {
            // the same concrete bytes go to both decoders; adaptive bytes follow one of them
            let toks = sym_gens(s);
            for g in toks {
                let b = match g {
                    G::F(b) => b,
                    g => {
                        let w = if adapt_lhs { p.l.wanted() } else { p.r.wanted() };
                        match g {
                            G::Lo => w as u8,
                            G::Hi => (w >> 8) as u8,
                            _ => (w as u8).wrapping_add(1),
                        }
                    }
                };
                gens.push(b);
                let (a, c) = (p.l.push(b), p.r.push(b));
                if a != c {
                    return Some(format!("byte {:02x}: {} vs new decoder {}", b, a.short(), c.short()));
                }
            }
        }
    }
    None
}
fn c14_dfs(
    p: &Pair,
    depth: usize,
    alpha: &[Sym],
    adapt_lhs: bool,
    cont: &mut Vec<Sym>,
    stats: &mut (u64, u64, u64),
    found: &mut Vec<(Vec<Sym>, String)>,
) {
    if depth == 0 || found.len() >= 2 {
        return;
    }
    for &s in alpha {
        let mut q = Pair { l: p.l.dup(), r: p.r.dup() };
        let mut bytes = vec![];
        stats.0 += 1;
        cont.push(s);
        if let Some(d) = apply_pair(&mut q, s, adapt_lhs, &mut bytes) {
            found.push((cont.clone(), d));
        } else if crate::dec::hooks_complete() && q.l.snap() == q.r.snap() {
            // identical in every field: all futures identical, nothing left to explore
            stats.1 += 1;
        } else {
            if depth == 1 {
                stats.2 += 1;
            }
            c14_dfs(&q, depth - 1, alpha, adapt_lhs, cont, stats, found);
        }
        cont.pop();
    }
}
/// Single comparison (used by replay): boundary path, continuation, which side drives CLO/CHI.
pub fn c14_compare(kind: BufKind, path: &[Sym], cont: &[Sym], adapt_lhs: bool) -> Option<Viol> {
    let (n, _) = rebuild(kind, path);
    let mut p = Pair { l: n.dec, r: new_dec(kind) };
    let mut bytes = vec![];
    for (i, &s) in cont.iter().enumerate() {
        if let Some(d) = apply_pair(&mut p, s, adapt_lhs, &mut bytes) {
            return Some(c14_viol(kind, path, &cont[..=i], adapt_lhs, d, &bytes));
        }
    }
    None
}
fn c14_viol(kind: BufKind, path: &[Sym], cont: &[Sym], adapt_lhs: bool, d: String, bytes: &[u8]) -> Viol {
    Viol {
        class: "C14 behaviour after a transmission boundary differs from a newly constructed decoder".into(),
        key: format!("{}:{}|{}|{}", kind.name(), path_str(path).replace(' ', ","), path_str(cont).replace(' ', ","), if adapt_lhs { "lhs" } else { "fresh" }),
        what: format!("after [{}] (boundary), continuation [{}] (bytes {}): {}", path_str(path), path_str(cont), hex(bytes), d),
        case: J::obj()
            .set("engine", "e1")
            .set("mode", "c14")
            .set("buf", kind.name())
            .set("path", path_str(path))
            .set("cont", path_str(cont))
            .set("adapt", if adapt_lhs { "lhs" } else { "fresh" }),
        size: path.len() * 100 + cont.len(),
    }
}

/// C14, a transmission that is cut off by the next start sequence: after start + `a` (no 0x1b
/// at the end of `a`, so the next start sequence is aligned) the decoder reports the cut-off
/// transmission once and must then decode what follows exactly as a new decoder does -
/// nothing of the aborted transmission (withheld zeros, buffer contents, counters) may be left.
pub fn c14_restart_one(kind: BufKind, a: &[u8], tail: &[u8]) -> Option<Viol> {
    let mut stream = START.to_vec();
    stream.extend_from_slice(a);
    let off = stream.len();
    stream.extend_from_slice(tail);
    let whole = crate::mon::mon_run(kind, &stream, &[]);
    let fresh = crate::mon::mon_run(kind, tail, &[]);
    let first_ok = matches!(whole.events.first(), Some(Ev::Dec(_))) && whole.pos.first() == Some(&(off + 8));
    let rest_ok = first_ok && whole.events[1..] == fresh.events[..] && whole.pos[1..].iter().map(|p| p - off).collect::<Vec<_>>() == fresh.pos;
    if rest_ok {
        return None;
    }
    Some(Viol {
        class: "C14 behaviour after a transmission cut off by the next start sequence differs from a newly constructed decoder".into(),
        key: format!("{}:abort={}", kind.name(), hex(a)),
        what: format!("after start+{} the stream {} gives {} at {:?}; a new decoder gives {} at {:?}", hex(a), hex(tail), evs_short(&whole.events), whole.pos, evs_short(&fresh.events), fresh.pos),
        case: J::obj().set("engine", "e1").set("mode", "c14restart").set("buf", kind.name()).set("abort", hex(a)).set("bytes", hex(tail)),
        size: a.len() * 100 + tail.len(),
    })
}
fn c14_restarts(acc: &mut Acc, tier: Tier) {
    // every a over {00, 55} up to length 6 (7 thorough), also behind a leading 1b
    let maxl = tier.pick(6, 7);
    let mut aborts: Vec<Vec<u8>> = vec![vec![]];
    let mut i = 0;
    while i < aborts.len() {
        if aborts[i].len() < maxl {
            for b in [0x00u8, 0x55] {
                let mut n = aborts[i].clone();
                n.push(b);
                aborts.push(n);
            }
        }
        i += 1;
    }
    let lead: Vec<Vec<u8>> = aborts.iter().filter(|a| !a.is_empty() && a.len() < maxl).map(|a| { let mut n = vec![0x1b]; n.extend_from_slice(a); n }).collect();
    aborts.extend(lead);
    let mut tails: Vec<Vec<u8>> = vec![];
    for p in [&[][..], &[0x55], &[0x00], &[0x00, 0x00, 0x55], &[0x55, 0x00, 0x00, 0x00, 0x00, 0x00], &[0x1b, 0x1b, 0x1b, 0x1b, 0x01]] {
        for q in [&[][..], &[0x55], &[0x00, 0x00]] {
            let mut t = canon(p);
            if !q.is_empty() { t.extend_from_slice(&canon(q)); }
            tails.push(t);
        }
    }
    let mut n = 0u64;
    for kind in [BufKind::Vec, BufKind::Arr(8)] {
        for a in &aborts {
            for t in &tails {
                n += 1;
                if let Some(v) = c14_restart_one(kind, a, t) {
                    acc.tally.add(v);
                }
            }
        }
    }
    acc.counts.addn("streams behind a transmission cut off by the next start sequence compared with a new decoder", n);
}

pub fn run_c14(tier: Tier) -> ! {
    let ctx = Ctx::new("C14", tier);
    let mut gf = vec![];
    let golden = golden_monitor_binding(&ctx, &mut gf);
    let mut acc = Acc::new();
    acc.golden = gf;
    acc.absorb_golden(&["C14"]);
    let dv = tier.pick(6, 7);
    let df = tier.pick(5, 6);
    let dcont = 2;
    let alpha = cont_alphabet();
    let mut total_pairs = 0u64;
    let mut closed = 0u64;
    let mut open_at_bound = 0u64;
    for (kind, depth) in [
        (BufKind::Vec, dv),
        (BufKind::Arr(0), df + 2),
        (BufKind::Arr(1), df + 1),
        (BufKind::Arr(2), df),
        (BufKind::Arr(3), df),
        (BufKind::Arr(4), df),
        (BufKind::Arr(5), df),
        (BufKind::Arr(8), df),
    ] {
        let cfg = Cfg { collect_boundaries: true, ..base_cfg("C14", kind, depth, vec!["C14"], &ctx) };
        let mut ex = explore(&cfg, &ctx);
        let bounds = std::mem::take(&mut ex.boundaries);
        acc.add("boundary collection", &cfg, ex);
        acc.counts.addn("distinct boundary states", bounds.len() as u64);
        ctx.log(&format!("{}: {} distinct boundary snapshots; continuations of depth <= {} over {} symbols, both adaptivities", kind.name(), bounds.len(), dcont, alpha.len()));
        let parts = par_chunks(bounds.len() as u64, 8, |a, b| {
            let mut t = Tally::new();
            let mut st = (0u64, 0u64, 0u64);
            for i in a..b {
                let (_snap, path) = &bounds[i as usize];
                let (n, _) = rebuild(kind, path);
                // deeper continuations for boundaries found close to the root
                // thorough: one symbol more for the boundaries found up to the quick tier's depth
                let d = if tier == Tier::Thorough && path.len() + 1 <= depth { dcont + 1 } else { dcont };
                for adapt_lhs in [true, false] {
                    let p = Pair { l: n.dec.dup(), r: new_dec(kind) };
                    let mut found = vec![];
                    let mut cont = vec![];
                    c14_dfs(&p, d, &alpha, adapt_lhs, &mut cont, &mut st, &mut found);
                    for (c, _d) in found {
                        if let Some(v) = c14_compare(kind, path, &c, adapt_lhs) {
                            t.add(v);
                        }
                    }
                }
            }
            (t, st)
        });
        for (t, st) in parts {
            acc.tally.merge(t);
            total_pairs += st.0;
            closed += st.1;
            open_at_bound += st.2;
        }
    }
    many_frames(&mut acc, &["C14"], tier.pick(300, 1000));
    c14_restarts(&mut acc, tier);
    acc.transitions += total_pairs * 2;
    acc.counts.addn("lock-step continuation steps (boundary state vs new decoder)", total_pairs);
    acc.counts.addn("continuations closed by full state equality (all futures identical)", closed);
    acc.counts.addn("continuations still distinct in state at the depth bound (outputs identical so far)", open_at_bound);
    acc.counts.require(&["distinct boundary states", "frames delivered", "frames rejected"]);
    if crate::dec::hooks_complete() {
        acc.counts.require(&["continuations closed by full state equality (all futures identical)"]);
    }
    acc.samples.push(J::obj().set("differential", "boundary path [ESC SOM ESC TAIL0] then continuation [PADLIE1 FRAME1] on the boundary state and on Decoder::new(), outputs compared call by call"));
    let cov = acc.coverage(golden, RULE);
    finish_e1(&ctx, cov, assumptions(), acc.tally)
}
