//! Reference model of the supported SML subset (DESIGN "parser group"):
//! (1) an abstract SML file, (2) a generator of every valid wire encoding of an
//! abstract file under an encoding-choice vector, (3) an independent reader
//! written from the SML grammar (TLF rule, optional = 01, list arities, choice
//! tags, CRC-16/X.25 over the message bytes before the checksum field, 00 end
//! marker) plus the documented vendor workaround for `Time`. Shares no code
//! with `sml_rs::parser`.
use crate::refm::crc_x25;

#[derive(Debug, Clone, PartialEq, Eq, Hash)]
pub enum RTime {
    SecIndex(u32),
    /// a variant of the crate's type that this harness does not know (Debug text)
    Other(String),
}
#[derive(Debug, Clone, PartialEq, Eq, Hash)]
pub enum RValue {
    Bool(bool),
    Bytes(Vec<u8>),
    I8(i8),
    I16(i16),
    I32(i32),
    I64(i64),
    U8(u8),
    U16(u16),
    U32(u32),
    U64(u64),
    ListTime(RTime),
    Other(String),
}
#[derive(Debug, Clone, PartialEq, Eq, Hash)]
pub enum RStatus {
    S8(u8),
    S16(u16),
    S32(u32),
    S64(u64),
    Other(String),
}
#[derive(Debug, Clone, PartialEq, Eq, Hash)]
pub struct REntry {
    pub obj_name: Vec<u8>,
    pub status: Option<RStatus>,
    pub val_time: Option<RTime>,
    pub unit: Option<u8>,
    pub scaler: Option<i8>,
    pub value: RValue,
    pub sig: Option<Vec<u8>>,
}
#[derive(Debug, Clone, PartialEq, Eq, Hash)]
pub enum RBody {
    /// a message body variant this harness does not know (Debug text)
    Other(String),
    Open {
        codepage: Option<Vec<u8>>,
        client_id: Option<Vec<u8>>,
        req_file_id: Vec<u8>,
        server_id: Vec<u8>,
        ref_time: Option<RTime>,
        sml_version: Option<u8>,
    },
    Close {
        sig: Option<Vec<u8>>,
    },
    GetList {
        client_id: Option<Vec<u8>>,
        server_id: Vec<u8>,
        list_name: Option<Vec<u8>>,
        act_sensor_time: Option<RTime>,
        vals: Vec<REntry>,
        list_sig: Option<Vec<u8>>,
        act_gateway_time: Option<RTime>,
    },
}
#[derive(Debug, Clone, PartialEq, Eq, Hash)]
pub struct RMsg {
    pub tid: Vec<u8>,
    pub group: u8,
    pub abort: u8,
    pub body: RBody,
}
pub type RFile = Vec<RMsg>;

#[derive(Debug, Clone, Copy, PartialEq, Eq)]
pub enum Ty {
    Octet,
    Bool,
    Int,
    Uint,
    List,
}
impl Ty {
    pub fn bits(self) -> u8 {
        match self {
            Ty::Octet => 0x00,
            Ty::Bool => 0x40,
            Ty::Int => 0x50,
            Ty::Uint => 0x60,
            Ty::List => 0x70,
        }
    }
}
#[derive(Debug, Clone, PartialEq, Eq)]
pub enum RErr {
    Eof,
    TlfOverflow,
    TlfUnderflow,
    TlfReserved,
    TlfNextType,
    TlfInvalidTy,
    Mismatch,
    Crc,
    EndMarker,
    Variant,
    Leftover,
}
type R<T> = Result<T, RErr>;

/// The SML type-length rule on its own: `(type, decoded length, bytes used)`.
/// Length = concatenated 4-bit groups; for non-list types minus the field's own
/// size; error if negative, if it does not fit 32 bits, on reserved type bits or
/// a boolean with continuation.
pub fn ref_tlf(b: &[u8]) -> R<(Ty, u64, usize)> {
    let first = *b.first().ok_or(RErr::Eof)?;
    let ty = match (first >> 4) & 7 {
        0 => Ty::Octet,
        4 => Ty::Bool,
        5 => Ty::Int,
        6 => Ty::Uint,
        7 => Ty::List,
        _ => return Err(RErr::TlfInvalidTy),
    };
    let mut more = first & 0x80 != 0;
    if ty == Ty::Bool && more {
        return Err(RErr::TlfReserved);
    }
    let mut len: u128 = (first & 0x0f) as u128;
    let mut nbytes: usize = 1;
    while more {
        let nb = *b.get(nbytes).ok_or(RErr::Eof)?;
        if (nb >> 4) & 7 != 0 {
            return Err(RErr::TlfNextType);
        }
        more = nb & 0x80 != 0;
        nbytes += 1;
        len = (len << 4) | (nb & 0x0f) as u128;
        if len > u32::MAX as u128 {
            return Err(RErr::TlfOverflow);
        }
    }
    if ty != Ty::List {
        if len < nbytes as u128 {
            return Err(RErr::TlfUnderflow);
        }
        len -= nbytes as u128;
    }
    Ok((ty, len as u64, nbytes))
}

#[derive(Debug, Clone)]
pub struct TlfSite {
    pub off: usize,
    pub nbytes: usize,
    pub ty: Ty,
    pub len: u64,
}
pub struct Cur<'a> {
    pub b: &'a [u8],
    pub i: usize,
    pub check_crc: bool,
    /// (message start, end of checksummed bytes, offset of the checksum TLF)
    pub crc_sites: Vec<(usize, usize, usize)>,
    pub tlf_sites: Vec<TlfSite>,
    /// progress markers: one per message head read (transaction id, group, abort, announced
    /// number of values for a list response), and the number of list values read
    pub starts: Vec<(Vec<u8>, u8, u8, Option<u64>)>,
    pub n_entries: usize,
}
impl<'a> Cur<'a> {
    pub fn new(b: &'a [u8]) -> Self {
        Cur { b, i: 0, check_crc: true, crc_sites: vec![], tlf_sites: vec![], starts: vec![], n_entries: 0 }
    }
    fn byte(&mut self) -> R<u8> {
        let x = *self.b.get(self.i).ok_or(RErr::Eof)?;
        self.i += 1;
        Ok(x)
    }
    fn take(&mut self, n: u64) -> R<&'a [u8]> {
        if ((self.b.len() - self.i) as u64) < n {
            return Err(RErr::Eof);
        }
        let s = &self.b[self.i..self.i + n as usize];
        self.i += n as usize;
        Ok(s)
    }
    pub fn tlf(&mut self) -> R<(Ty, u64)> {
        let (ty, len, n) = ref_tlf(&self.b[self.i..])?;
        self.tlf_sites.push(TlfSite { off: self.i, nbytes: n, ty, len });
        self.i += n;
        Ok((ty, len))
    }
    fn is_absent(&mut self) -> bool {
        if self.b.get(self.i) == Some(&0x01) {
            self.i += 1;
            true
        } else {
            false
        }
    }
    fn octet(&mut self) -> R<Vec<u8>> {
        let (ty, n) = self.tlf()?;
        if ty != Ty::Octet {
            return Err(RErr::Mismatch);
        }
        Ok(self.take(n)?.to_vec())
    }
    fn opt_octet(&mut self) -> R<Option<Vec<u8>>> {
        if self.is_absent() {
            Ok(None)
        } else {
            self.octet().map(Some)
        }
    }
    fn uint_body(&mut self, n: u64) -> R<u64> {
        let s = self.take(n)?;
        Ok(s.iter().fold(0u64, |a, &b| (a << 8) | b as u64))
    }
    fn int_body(&mut self, n: u64) -> R<i64> {
        let s = self.take(n)?;
        let mut v: i64 = if s[0] & 0x80 != 0 { -1 } else { 0 };
        for &b in s {
            v = (v << 8) | b as i64;
        }
        Ok(v)
    }
    fn uint(&mut self, max: u64) -> R<u64> {
        let (ty, n) = self.tlf()?;
        if ty != Ty::Uint || n == 0 || n > max {
            return Err(RErr::Mismatch);
        }
        self.uint_body(n)
    }
    fn int(&mut self, max: u64) -> R<i64> {
        let (ty, n) = self.tlf()?;
        if ty != Ty::Int || n == 0 || n > max {
            return Err(RErr::Mismatch);
        }
        self.int_body(n)
    }
    fn list(&mut self, arity: u64) -> R<()> {
        let (ty, n) = self.tlf()?;
        if ty != Ty::List || n != arity {
            return Err(RErr::Mismatch);
        }
        Ok(())
    }
    fn time(&mut self) -> R<RTime> {
        let (ty, n) = self.tlf()?;
        if ty == Ty::Uint && n == 4 {
            // documented vendor workaround (Holley DTZ541): bare u32 instead of choice list
            return Ok(RTime::SecIndex(self.uint_body(4)? as u32));
        }
        if ty != Ty::List || n != 2 {
            return Err(RErr::Mismatch);
        }
        match self.uint(1)? {
            1 => Ok(RTime::SecIndex(self.uint(4)? as u32)),
            _ => Err(RErr::Variant),
        }
    }
    fn opt_time(&mut self) -> R<Option<RTime>> {
        if self.is_absent() {
            Ok(None)
        } else {
            self.time().map(Some)
        }
    }
    fn status(&mut self) -> R<RStatus> {
        let (ty, n) = self.tlf()?;
        if ty != Ty::Uint || n == 0 || n > 8 {
            return Err(RErr::Mismatch);
        }
        let v = self.uint_body(n)?;
        Ok(match n {
            1 => RStatus::S8(v as u8),
            2 => RStatus::S16(v as u16),
            3 | 4 => RStatus::S32(v as u32),
            _ => RStatus::S64(v),
        })
    }
    fn value(&mut self) -> R<RValue> {
        let (ty, n) = self.tlf()?;
        Ok(match ty {
            Ty::Bool => {
                if n != 1 {
                    return Err(RErr::Mismatch);
                }
                RValue::Bool(self.byte()? != 0)
            }
            Ty::Octet => RValue::Bytes(self.take(n)?.to_vec()),
            Ty::Int => {
                if n == 0 || n > 8 {
                    return Err(RErr::Mismatch);
                }
                let v = self.int_body(n)?;
                match n {
                    1 => RValue::I8(v as i8),
                    2 => RValue::I16(v as i16),
                    3 | 4 => RValue::I32(v as i32),
                    _ => RValue::I64(v),
                }
            }
            Ty::Uint => {
                if n == 0 || n > 8 {
                    return Err(RErr::Mismatch);
                }
                let v = self.uint_body(n)?;
                match n {
                    1 => RValue::U8(v as u8),
                    2 => RValue::U16(v as u16),
                    3 | 4 => RValue::U32(v as u32),
                    _ => RValue::U64(v),
                }
            }
            Ty::List => {
                if n != 2 {
                    return Err(RErr::Mismatch);
                }
                match self.uint(1)? {
                    1 => RValue::ListTime(self.time()?),
                    _ => return Err(RErr::Variant),
                }
            }
        })
    }
    fn entry(&mut self) -> R<REntry> {
        self.list(7)?;
        let obj_name = self.octet()?;
        let status = if self.is_absent() { None } else { Some(self.status()?) };
        let val_time = self.opt_time()?;
        let unit = if self.is_absent() { None } else { Some(self.uint(1)? as u8) };
        let scaler = if self.is_absent() { None } else { Some(self.int(1)? as i8) };
        let value = self.value()?;
        let sig = self.opt_octet()?;
        Ok(REntry { obj_name, status, val_time, unit, scaler, value, sig })
    }
    pub fn message(&mut self) -> R<RMsg> {
        let start = self.i;
        self.list(6)?;
        let tid = self.octet()?;
        let group = self.uint(1)? as u8;
        let abort = self.uint(1)? as u8;
        self.list(2)?;
        let tag = self.uint(4)?;
        let body = match tag {
            0x0101 => {
                self.list(6)?;
                let b = RBody::Open {
                    codepage: self.opt_octet()?,
                    client_id: self.opt_octet()?,
                    req_file_id: self.octet()?,
                    server_id: self.octet()?,
                    ref_time: self.opt_time()?,
                    sml_version: if self.is_absent() { None } else { Some(self.uint(1)? as u8) },
                };
                self.starts.push((tid.clone(), group, abort, None));
                b
            }
            0x0201 => {
                self.list(1)?;
                let b = RBody::Close { sig: self.opt_octet()? };
                self.starts.push((tid.clone(), group, abort, None));
                b
            }
            0x0701 => {
                self.list(7)?;
                let client_id = self.opt_octet()?;
                let server_id = self.octet()?;
                let list_name = self.opt_octet()?;
                let act_sensor_time = self.opt_time()?;
                let (ty, n) = self.tlf()?;
                if ty != Ty::List {
                    return Err(RErr::Mismatch);
                }
                self.starts.push((tid.clone(), group, abort, Some(n)));
                let mut vals = Vec::new();
                for _ in 0..n {
                    vals.push(self.entry()?);
                    self.n_entries += 1;
                }
                RBody::GetList { client_id, server_id, list_name, act_sensor_time, vals, list_sig: self.opt_octet()?, act_gateway_time: self.opt_time()? }
            }
            _ => return Err(RErr::Variant),
        };
        let end = self.i;
        let crc_tlf_at = self.i;
        let crc = self.uint(2)? as u16;
        self.crc_sites.push((start, end, crc_tlf_at));
        if self.byte()? != 0x00 {
            return Err(RErr::EndMarker);
        }
        if self.check_crc && crc != crc_x25(&self.b[start..end]).swap_bytes() {
            return Err(RErr::Crc);
        }
        Ok(RMsg { tid, group, abort, body })
    }
}
/// Independent reading of a whole SML file.
pub fn read_file(b: &[u8]) -> R<RFile> {
    let mut c = Cur::new(b);
    let mut v = vec![];
    while c.i < b.len() {
        v.push(c.message()?);
    }
    Ok(v)
}
pub struct RefProgress {
    pub starts: Vec<(Vec<u8>, u8, u8, Option<u64>)>,
    pub n_entries: usize,
}
/// How far the independent reading gets: message heads and list values read before its end / first error.
pub fn ref_progress(b: &[u8]) -> RefProgress {
    let mut c = Cur::new(b);
    while c.i < b.len() {
        if c.message().is_err() {
            break;
        }
    }
    RefProgress { starts: c.starts, n_entries: c.n_entries }
}
/// Rewrites every message checksum the reader can locate (structure must parse with
/// checksums ignored, and each checksum field must be the 2-byte form). `None` if not.
pub fn repair_crcs(x: &[u8]) -> Option<Vec<u8>> {
    let mut c = Cur::new(x);
    c.check_crc = false;
    while c.i < x.len() {
        if c.message().is_err() {
            return None;
        }
    }
    let mut y = x.to_vec();
    for (s, e, at) in c.crc_sites {
        if y[at] != 0x63 {
            return None;
        }
        let crc = crc_x25(&y[s..e]).swap_bytes();
        y[at + 1] = (crc >> 8) as u8;
        y[at + 2] = crc as u8;
    }
    Some(y)
}
/// TLF positions of a structurally valid file (checksums ignored).
pub fn tlf_map(x: &[u8]) -> Option<Vec<TlfSite>> {
    let mut c = Cur::new(x);
    c.check_crc = false;
    while c.i < x.len() {
        if c.message().is_err() {
            return None;
        }
    }
    Some(c.tlf_sites)
}

// ------------------------------------------------------------------ generator
/// Encoder with an encoding-choice vector: every place where the wire format
/// offers several valid encodings of the same abstract content is a *site*;
/// `dev` lists the sites that take a non-default option.
pub struct Enc<'c> {
    pub out: Vec<u8>,
    /// number of options at each site, in encounter order
    pub sites: Vec<u8>,
    dev: &'c [(usize, u8)],
}
impl<'c> Enc<'c> {
    pub fn new(dev: &'c [(usize, u8)]) -> Self {
        Enc { out: vec![], sites: vec![], dev }
    }
    fn choose(&mut self, n: u8) -> u8 {
        let idx = self.sites.len();
        self.sites.push(n);
        if n <= 1 {
            return 0;
        }
        self.dev.iter().find(|d| d.0 == idx).map(|d| d.1.min(n - 1)).unwrap_or(0)
    }
    /// writes a TLF for `ty` carrying `count` (list arity, or payload length in bytes)
    pub fn tlf(&mut self, ty: Ty, count: u64, force_multi: bool) {
        let is_list = ty == Ty::List;
        // smallest number of TLF bytes
        let mut n = 1usize;
        loop {
            let v = if is_list { count as u128 } else { count as u128 + n as u128 };
            if v < (1u128 << (4 * n)) {
                break;
            }
            n += 1;
        }
        let opt = if ty == Ty::Bool {
            0
        } else {
            // minimal / one byte longer / 8 bytes / 9 bytes / 13 bytes (leading zero groups: the value
            // still fits 32 bits, so the SML rule accepts all of them)
            let nopt = if n >= 8 { 1 } else if n == 7 { 2 } else { 5 };
            let o = self.choose(nopt);
            if force_multi && o == 0 && n == 1 {
                1
            } else {
                o
            }
        };
        let nbytes = match opt {
            0 => n,
            1 => n + 1,
            2 => 8,
            3 => 9,
            _ => 13,
        };
        let v: u128 = if is_list { count as u128 } else { count as u128 + nbytes as u128 };
        for k in 0..nbytes {
            let nib = ((v >> (4 * (nbytes - 1 - k))) & 0xf) as u8;
            let more = if k + 1 < nbytes { 0x80 } else { 0 };
            let tb = if k == 0 { ty.bits() } else { 0 };
            self.out.push(more | tb | nib);
        }
    }
    fn octet(&mut self, b: &[u8]) {
        self.tlf(Ty::Octet, b.len() as u64, false);
        self.out.extend_from_slice(b);
    }
    fn opt_octet(&mut self, b: &Option<Vec<u8>>) {
        match b {
            None => self.out.push(0x01),
            Some(b) => {
                // an empty string in minimal form *is* the absent marker: needs a longer TLF
                self.tlf(Ty::Octet, b.len() as u64, b.is_empty());
                self.out.extend_from_slice(b);
            }
        }
    }
    /// unsigned `v` in one of the widths `lo..=hi` that can hold it
    fn uint(&mut self, v: u64, lo: usize, hi: usize) {
        let need = ((64 - v.leading_zeros() as usize) + 7) / 8;
        let need = need.max(1).max(lo);
        assert!(need <= hi, "value {} does not fit width class {}..={}", v, lo, hi);
        let w = need + self.choose((hi - need + 1) as u8) as usize;
        self.tlf(Ty::Uint, w as u64, false);
        self.out.extend_from_slice(&v.to_be_bytes()[8 - w..]);
    }
    fn int(&mut self, v: i64, lo: usize, hi: usize) {
        let mut need = 1;
        while need < 8 && !(v >= -(1i64 << (8 * need - 1)) && v < (1i64 << (8 * need - 1))) {
            need += 1;
        }
        let need = need.max(lo);
        assert!(need <= hi, "value {} does not fit width class {}..={}", v, lo, hi);
        let w = need + self.choose((hi - need + 1) as u8) as usize;
        self.tlf(Ty::Int, w as u64, false);
        self.out.extend_from_slice(&v.to_be_bytes()[8 - w..]);
    }
    fn time(&mut self, t: &RTime) {
        let v = match t {
            RTime::SecIndex(v) => v,
            RTime::Other(_) => unreachable!("the generator only encodes known variants"),
        };
        if self.choose(2) == 1 {
            // vendor workaround form
            self.out.push(0x65);
            self.out.extend_from_slice(&v.to_be_bytes());
        } else {
            self.tlf(Ty::List, 2, false);
            self.uint(1, 1, 1);
            self.uint(*v as u64, 1, 4);
        }
    }
    fn opt_time(&mut self, t: &Option<RTime>) {
        match t {
            None => self.out.push(0x01),
            Some(t) => self.time(t),
        }
    }
    fn status(&mut self, s: &RStatus) {
        match s {
            RStatus::S8(v) => self.uint(*v as u64, 1, 1),
            RStatus::S16(v) => self.uint(*v as u64, 2, 2),
            RStatus::S32(v) => self.uint(*v as u64, 3, 4),
            RStatus::S64(v) => self.uint(*v, 5, 8),
            RStatus::Other(_) => unreachable!("the generator only encodes known variants"),
        }
    }
    fn value(&mut self, v: &RValue) {
        match v {
            RValue::Bool(b) => {
                self.tlf(Ty::Bool, 1, false);
                // every non-zero byte is `true`
                let o = if *b { [0x01u8, 0xff, 0x80][self.choose(3) as usize] } else { 0 };
                self.out.push(o);
            }
            RValue::Bytes(b) => self.octet(b),
            RValue::I8(v) => self.int(*v as i64, 1, 1),
            RValue::I16(v) => self.int(*v as i64, 2, 2),
            RValue::I32(v) => self.int(*v as i64, 3, 4),
            RValue::I64(v) => self.int(*v, 5, 8),
            RValue::U8(v) => self.uint(*v as u64, 1, 1),
            RValue::U16(v) => self.uint(*v as u64, 2, 2),
            RValue::U32(v) => self.uint(*v as u64, 3, 4),
            RValue::U64(v) => self.uint(*v, 5, 8),
            RValue::ListTime(t) => {
                self.tlf(Ty::List, 2, false);
                self.uint(1, 1, 1);
                self.time(t);
            }
            RValue::Other(_) => unreachable!("the generator only encodes known variants"),
        }
    }
    pub fn entry(&mut self, e: &REntry) {
        self.tlf(Ty::List, 7, false);
        self.octet(&e.obj_name);
        match &e.status {
            None => self.out.push(0x01),
            Some(s) => self.status(s),
        }
        self.opt_time(&e.val_time);
        match e.unit {
            None => self.out.push(0x01),
            Some(u) => self.uint(u as u64, 1, 1),
        }
        match e.scaler {
            None => self.out.push(0x01),
            Some(s) => self.int(s as i64, 1, 1),
        }
        self.value(&e.value);
        self.opt_octet(&e.sig);
    }
    pub fn message(&mut self, m: &RMsg) {
        let start = self.out.len();
        self.tlf(Ty::List, 6, false);
        self.octet(&m.tid);
        self.uint(m.group as u64, 1, 1);
        self.uint(m.abort as u64, 1, 1);
        self.tlf(Ty::List, 2, false);
        match &m.body {
            RBody::Open { codepage, client_id, req_file_id, server_id, ref_time, sml_version } => {
                self.uint(0x0101, 1, 4);
                self.tlf(Ty::List, 6, false);
                self.opt_octet(codepage);
                self.opt_octet(client_id);
                self.octet(req_file_id);
                self.octet(server_id);
                self.opt_time(ref_time);
                match sml_version {
                    None => self.out.push(0x01),
                    Some(v) => self.uint(*v as u64, 1, 1),
                }
            }
            RBody::Close { sig } => {
                self.uint(0x0201, 1, 4);
                self.tlf(Ty::List, 1, false);
                self.opt_octet(sig);
            }
            RBody::GetList { client_id, server_id, list_name, act_sensor_time, vals, list_sig, act_gateway_time } => {
                self.uint(0x0701, 1, 4);
                self.tlf(Ty::List, 7, false);
                self.opt_octet(client_id);
                self.octet(server_id);
                self.opt_octet(list_name);
                self.opt_time(act_sensor_time);
                self.tlf(Ty::List, vals.len() as u64, false);
                for e in vals {
                    self.entry(e);
                }
                self.opt_octet(list_sig);
                self.opt_time(act_gateway_time);
            }
            RBody::Other(_) => unreachable!("the generator only encodes known variants"),
        }
        let crc = crc_x25(&self.out[start..]).swap_bytes();
        self.uint(crc as u64, 1, 2);
        self.out.push(0x00);
    }
}
/// Encodes `f` under deviation vector `dev`; returns the bytes and the option count of every site.
pub fn encode_file(f: &[RMsg], dev: &[(usize, u8)]) -> (Vec<u8>, Vec<u8>) {
    let mut e = Enc::new(dev);
    for m in f {
        e.message(m);
    }
    (e.out, e.sites)
}

// ------------------------------------------------------------------ conversion from sml-rs
use sml_rs::parser::common::{ListEntry, ListType, Status, Time, Value};
use sml_rs::parser::{complete, streaming, ParseError};

// The crate's enums are matched with a catch-all arm: a variant added to them must surface as a
// content difference (a finding), not as a harness that no longer builds.
pub fn t(x: &Time) -> RTime {
    #[allow(unreachable_patterns)]
    match x {
        Time::SecIndex(v) => RTime::SecIndex(*v),
        other => RTime::Other(format!("{:?}", other)),
    }
}
fn ov(x: &Option<&[u8]>) -> Option<Vec<u8>> {
    x.map(|s| s.to_vec())
}
#[allow(unreachable_patterns)]
pub fn conv_entry(e: &ListEntry) -> REntry {
    REntry {
        obj_name: e.obj_name.to_vec(),
        status: e.status.as_ref().map(|s| {
            #[allow(unreachable_patterns)]
            match s {
                Status::Status8(v) => RStatus::S8(*v),
                Status::Status16(v) => RStatus::S16(*v),
                Status::Status32(v) => RStatus::S32(*v),
                Status::Status64(v) => RStatus::S64(*v),
                other => RStatus::Other(format!("{:?}", other)),
            }
        }),
        val_time: e.val_time.as_ref().map(t),
        unit: e.unit,
        scaler: e.scaler,
        value: match &e.value {
            Value::Bool(b) => RValue::Bool(*b),
            Value::Bytes(b) => RValue::Bytes(b.to_vec()),
            Value::I8(v) => RValue::I8(*v),
            Value::I16(v) => RValue::I16(*v),
            Value::I32(v) => RValue::I32(*v),
            Value::I64(v) => RValue::I64(*v),
            Value::U8(v) => RValue::U8(*v),
            Value::U16(v) => RValue::U16(*v),
            Value::U32(v) => RValue::U32(*v),
            Value::U64(v) => RValue::U64(*v),
            Value::List(ListType::Time(x)) => RValue::ListTime(t(x)),
            other => RValue::Other(format!("{:?}", other)),
        },
        sig: ov(&e.value_signature),
    }
}
#[allow(unreachable_patterns)]
pub fn from_complete(f: &complete::File) -> RFile {
    f.messages
        .iter()
        .map(|m| RMsg {
            tid: m.transaction_id.to_vec(),
            group: m.group_no,
            abort: m.abort_on_error,
            body: match &m.message_body {
                complete::MessageBody::OpenResponse(o) => RBody::Open {
                    codepage: ov(&o.codepage),
                    client_id: ov(&o.client_id),
                    req_file_id: o.req_file_id.to_vec(),
                    server_id: o.server_id.to_vec(),
                    ref_time: o.ref_time.as_ref().map(t),
                    sml_version: o.sml_version,
                },
                complete::MessageBody::CloseResponse(c) => RBody::Close { sig: ov(&c.global_signature) },
                complete::MessageBody::GetListResponse(g) => RBody::GetList {
                    client_id: ov(&g.client_id),
                    server_id: g.server_id.to_vec(),
                    list_name: ov(&g.list_name),
                    act_sensor_time: g.act_sensor_time.as_ref().map(t),
                    vals: g.val_list.iter().map(conv_entry).collect(),
                    list_sig: ov(&g.list_signature),
                    act_gateway_time: g.act_gateway_time.as_ref().map(t),
                },
                other => RBody::Other(format!("{:?}", other)),
            },
        })
        .collect()
}

/// What iterating the streaming parser produced.
pub struct StreamRun {
    /// message heads handed out: (transaction id, group, abort, announced number of values)
    pub starts: Vec<(Vec<u8>, u8, u8, Option<u64>)>,
    pub n_entries: usize,
    /// allocator activity while inside `Parser::new` / `next` only
    pub alloc: crate::alloc::AllocStats,
    /// messages re-assembled from the events up to the first error / end
    pub msgs: RFile,
    pub err: Option<ParseError>,
    pub items: usize,
    /// protocol / termination findings (class, detail)
    pub notes: Vec<(&'static str, String)>,
}
/// Drives `streaming::Parser` over `x`: at most |x|+6 calls, then four more after the
/// first error / `None`.
pub fn run_streaming(x: &[u8]) -> StreamRun {
    crate::alloc::reset();
    let mut p = crate::alloc::accumulate(|| streaming::Parser::new(x));
    let mut r = StreamRun { starts: vec![], n_entries: 0, alloc: Default::default(), msgs: vec![], err: None, items: 0, notes: vec![] };
    let mut open_list: Option<(u32, u32)> = None;
    loop {
        if r.items > x.len() + 1 {
            r.notes.push(("C13 streaming parser yields more than |x|+1 items", format!("{} items for {} bytes", r.items, x.len())));
            break;
        }
        match crate::alloc::accumulate(|| p.next()) {
            None => break,
            Some(Err(e)) => {
                r.items += 1;
                r.err = Some(e);
                break;
            }
            Some(Ok(ev)) => {
                r.items += 1;
                #[allow(unreachable_patterns)]
                match ev {
                    streaming::ParseEvent::MessageStart(m) => {
                        if open_list.is_some() {
                            r.notes.push(("C09 MessageStart before the list of the previous message was closed", String::new()));
                        }
                        #[allow(unreachable_patterns)]
                        let body = match &m.message_body {
                            streaming::MessageBody::OpenResponse(o) => RBody::Open {
                                codepage: ov(&o.codepage),
                                client_id: ov(&o.client_id),
                                req_file_id: o.req_file_id.to_vec(),
                                server_id: o.server_id.to_vec(),
                                ref_time: o.ref_time.as_ref().map(t),
                                sml_version: o.sml_version,
                            },
                            streaming::MessageBody::CloseResponse(c) => RBody::Close { sig: ov(&c.global_signature) },
                            streaming::MessageBody::GetListResponse(g) => {
                                open_list = Some((g.num_vals, 0));
                                RBody::GetList {
                                    client_id: ov(&g.client_id),
                                    server_id: g.server_id.to_vec(),
                                    list_name: ov(&g.list_name),
                                    act_sensor_time: g.act_sensor_time.as_ref().map(t),
                                    vals: vec![],
                                    list_sig: None,
                                    act_gateway_time: None,
                                }
                            }
                            other => RBody::Other(format!("{:?}", other)),
                        };
                        let announced = match &m.message_body {
                            streaming::MessageBody::GetListResponse(g) => Some(g.num_vals as u64),
                            _ => None,
                        };
                        r.starts.push((m.transaction_id.to_vec(), m.group_no, m.abort_on_error, announced));
                        r.msgs.push(RMsg { tid: m.transaction_id.to_vec(), group: m.group_no, abort: m.abort_on_error, body });
                    }
                    streaming::ParseEvent::ListEntry(e) => match (&mut open_list, r.msgs.last_mut()) {
                        (Some((n, k)), Some(RMsg { body: RBody::GetList { vals, .. }, .. })) => {
                            *k += 1;
                            r.n_entries += 1;
                            if *k > *n {
                                r.notes.push(("C09 more value events than announced", format!("announced {}", n)));
                            }
                            vals.push(conv_entry(&e));
                        }
                        _ => r.notes.push(("C09 value event outside a list response", String::new())),
                    },
                    streaming::ParseEvent::GetListResponseEnd(g) => match (open_list.take(), r.msgs.last_mut()) {
                        (Some((n, k)), Some(RMsg { body: RBody::GetList { list_sig, act_gateway_time, .. }, .. })) => {
                            if n != k {
                                r.notes.push(("C09 list end event before all announced values", format!("announced {} seen {}", n, k)));
                            }
                            *list_sig = ov(&g.list_signature);
                            *act_gateway_time = g.act_gateway_time.as_ref().map(t);
                        }
                        _ => r.notes.push(("C09 list end event outside a list response", String::new())),
                    },
                    #[allow(unreachable_patterns)]
                    other => r.notes.push(("C09 streaming parser emits an event kind the allocating parser has no counterpart for", format!("{:?}", other))),
                }
            }
        }
    }
    for k in 0..4 {
        if let Some(x) = crate::alloc::accumulate(|| p.next()) {
            r.notes.push((
                "C13 streaming parser yields an item after its first error / end",
                format!("call {} after the end returned {}", k + 1, match x {
                    Ok(_) => "an event".to_string(),
                    Err(e) => format!("Err({:?})", e),
                }),
            ));
            break;
        }
    }
    // C06 (termination, work not driven by a declared length): iterated to exhaustion with
    // errors ignored - what `for ev in parser {}` does - the parser must have returned None
    // within |x|+2 calls in total.
    let mut more = 0usize;
    while crate::alloc::accumulate(|| p.next()).is_some() {
        more += 1;
        if r.items + 4 + more > x.len() + 2 {
            r.notes.push((
                "C06 streaming parser does not end within |x|+2 calls when iterated to exhaustion",
                format!("{} items and still no None for {} bytes", r.items + 4 + more, x.len()),
            ));
            break;
        }
    }
    r.alloc = crate::alloc::stats();
    if r.err.is_none() && open_list.is_some() {
        r.notes.push(("C09 input ended inside a list response without error", String::new()));
    }
    r
}
pub fn kind(e: &ParseError) -> String {
    match e {
        ParseError::TlfMismatch(_) => "TlfMismatch".into(),
        o => format!("{:?}", o),
    }
}
