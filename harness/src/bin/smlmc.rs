use smlmc::report::{machinery, Tier};

#[global_allocator]
static GLOBAL: smlmc::alloc::CountingAlloc = smlmc::alloc::CountingAlloc;

fn usage() -> ! {
    eprintln!("usage: smlmc check <C01..C18> [quick|thorough]\n       smlmc replay <file>");
    std::process::exit(2)
}

fn main() {
    smlmc::dec::install_quiet_panic_hook_once();
    let args: Vec<String> = std::env::args().collect();
    match args.get(1).map(|s| s.as_str()) {
        Some("check") => {
            let prop = args.get(2).cloned().unwrap_or_else(|| usage());
            let tier = match args.get(3).map(|s| s.as_str()).or(std::env::var("VERIF_TIER").ok().as_deref().map(|_| "")) {
                Some("thorough") => Tier::Thorough,
                Some("quick") | None => Tier::Quick,
                Some("") => match std::env::var("VERIF_TIER").as_deref() {
                    Ok("thorough") => Tier::Thorough,
                    _ => Tier::Quick,
                },
                _ => usage(),
            };
            match prop.as_str() {
                "C01" | "C07" | "C16" => smlmc::e2::run(&prop, tier),
                "C02" => smlmc::e1c::run_c02(tier),
                "C05" => smlmc::e1c::run_c05_c17("C05", tier),
                "C17" => smlmc::e1c::run_c05_c17("C17", tier),
                "C08" => smlmc::e1c::run_c08(tier),
                "C14" => smlmc::e1c::run_c14(tier),
                "C18" => smlmc::e5::run(tier),
                "C15" => smlmc::e3::run_c15(tier),
                "C11" => smlmc::e3::run_c11(tier),
                "C10" => smlmc::e3::run_c10(tier),
                "C03" => smlmc::e4::run("C03", tier),
                "C04" => smlmc::e4::run("C04", tier),
                "C06" => smlmc::e4::run("C06", tier),
                "C09" => smlmc::e4::run("C09", tier),
                "C12" => smlmc::e4::run("C12", tier),
                "C13" => smlmc::e4::run("C13", tier),
                _ => machinery(&format!("no check registered for {}", prop)),
            }
        }
        Some("allocfail") => {
            let k: usize = args.get(2).and_then(|s| s.parse().ok()).unwrap_or_else(|| usage());
            smlmc::e2::allocfail_child(k);
            std::process::exit(0);
        }
        Some("replay") => {
            let path = args.get(2).cloned().unwrap_or_else(|| usage());
            let txt = std::fs::read_to_string(&path).unwrap_or_else(|e| machinery(&format!("{}: {}", path, e)));
            let j = smlmc::json::parse(&txt).unwrap_or_else(|e| machinery(&format!("{}: {}", path, e)));
            let case = j.get("case").cloned().unwrap_or_else(|| machinery("replay file has no case"));
            smlmc::e1::VERBOSE.store(true, std::sync::atomic::Ordering::Relaxed);
            let class = j.get("class").and_then(|c| c.as_str()).unwrap_or("").to_string();
            let vs = smlmc::replay_case(&case);
            println!("replaying {} (recorded class: {})", path, class);
            for v in &vs {
                println!("  [{}] {} :: {}", v.class, v.key, v.what);
            }
            if vs.iter().any(|v| v.class == class) {
                println!("REPRODUCED");
                std::process::exit(1);
            }
            println!("NOT REPRODUCED (the recorded violation does not occur on the current tree)");
            std::process::exit(0);
        }
        _ => usage(),
    }
}
