//! C11 on the crate's default feature set: would-block and interrupted conditions of an
//! `io::Read` source never change the sequence of decoded results; each would-block surfaces once,
//! with zero discarded bytes, and reading resumes where it stopped. Differential oracle: the
//! results under a schedule of WouldBlock / Interrupted answers, with the would-block reports
//! removed, equal the results without any fault; the number of would-block reports equals the
//! number of WouldBlock answers. Every placement of up to two such answers (three on short
//! streams) over every read call, drivers `next` and `read`.
//! Prints `FINDING <class> :: <key> :: <what>` lines and a final `RUNS <n> WB <m>`.
#[path = "../../harness/src/refm.rs"]
#[allow(dead_code)]
mod refm;
use refm::canon;
use sml_rs::transport::{DecodeErr, ReadDecodedError};
use sml_rs::{DecodedBytes, SmlReader};
use std::io::ErrorKind;

#[derive(Clone, Copy, PartialEq, Eq, Debug)]
enum F {
    WouldBlock,
    Interrupted,
}
struct Sched<'a> {
    s: &'a [u8],
    i: usize,
    call: usize,
    sched: &'a [(usize, F)],
}
impl<'a> std::io::Read for Sched<'a> {
    fn read(&mut self, buf: &mut [u8]) -> std::io::Result<usize> {
        let c = self.call;
        self.call += 1;
        if buf.is_empty() {
            return Ok(0);
        }
        if let Some((_, f)) = self.sched.iter().find(|(k, _)| *k == c) {
            return Err(std::io::Error::new(if *f == F::WouldBlock { ErrorKind::WouldBlock } else { ErrorKind::Interrupted }, "fault"));
        }
        if self.i >= self.s.len() {
            return Ok(0);
        }
        buf[0] = self.s[self.i];
        self.i += 1;
        Ok(1)
    }
}
#[derive(Clone, PartialEq, Eq, Debug)]
enum Ev {
    Msg(Vec<u8>),
    Dec(DecodeErr),
    WouldBlock(usize),
    Eof(usize),
    OtherIo(String, usize),
    None,
}
fn conv(r: Result<&[u8], ReadDecodedError<std::io::Error>>) -> Ev {
    match r {
        Ok(m) => Ev::Msg(m.to_vec()),
        Err(ReadDecodedError::DecodeErr(e)) => Ev::Dec(e),
        Err(ReadDecodedError::IoErr(e, n)) => match e.kind() {
            ErrorKind::WouldBlock => Ev::WouldBlock(n),
            ErrorKind::UnexpectedEof => Ev::Eof(n),
            k => Ev::OtherIo(format!("{:?}", k), n),
        },
    }
}
fn drive(stream: &[u8], sched: &[(usize, F)], use_next: bool) -> Result<Vec<Ev>, String> {
    std::panic::catch_unwind(|| {
        let mut rd = SmlReader::with_static_buffer::<64>().from_reader(Sched { s: stream, i: 0, call: 0, sched });
        let mut out = vec![];
        let mut ends = 0;
        for _ in 0..stream.len() + sched.len() + 8 {
            let e = if use_next {
                match rd.next::<DecodedBytes>() {
                    None => Ev::None,
                    Some(r) => conv(r),
                }
            } else {
                conv(rd.read::<DecodedBytes>())
            };
            let end = matches!(e, Ev::None | Ev::Eof(0));
            out.push(e);
            if end {
                ends += 1;
                if ends >= 2 {
                    break;
                }
            } else {
                ends = 0;
            }
        }
        out
    })
    .map_err(|p| p.downcast_ref::<String>().cloned().or_else(|| p.downcast_ref::<&str>().map(|s| s.to_string())).unwrap_or_else(|| "panic".into()))
}
fn hex(b: &[u8]) -> String {
    b.iter().map(|x| format!("{:02x}", x)).collect()
}
fn main() {
    std::panic::set_hook(Box::new(|_| {}));
    let mut streams: Vec<Vec<u8>> = vec![];
    streams.push(canon(&[0x12, 0x34]));
    streams.push(canon(&[0x00, 0x1b, 0x1b, 0x1b, 0x1b, 0x00, 0x00, 0x1b]));
    let mut s = vec![0x55, 0x1b];
    s.extend(canon(&[0x00, 0x00, 0x00]));
    s.extend_from_slice(&[0x1b, 0x1b, 0x01]);
    streams.push(s);
    let mut s = canon(&[0x55]);
    let l = s.len();
    s[l - 1] ^= 1;
    s.extend(canon(&[0x01]));
    streams.push(s);
    let mut s = canon(&[]);
    s.extend(canon(&[0x1a, 0x1b]));
    streams.push(s);
    streams.push(vec![0x1b, 0x1b, 0x1b, 0x1b, 0x01, 0x01, 0x55]);
    streams.push(vec![]);
    let mut runs = 0u64;
    let mut wbs = 0u64;
    let mut findings = 0u64;
    for st in &streams {
        for use_next in [true, false] {
            let base = drive(st, &[], use_next);
            let ncalls = st.len() + 3;
            let kmax = if st.len() <= 24 { 3 } else { 2 };
            let mut scheds: Vec<Vec<(usize, F)>> = vec![];
            fn rec(ncalls: usize, from: usize, k: usize, cur: &mut Vec<(usize, F)>, out: &mut Vec<Vec<(usize, F)>>) {
                if k == 0 {
                    out.push(cur.clone());
                    return;
                }
                for c in from..ncalls {
                    for f in [F::WouldBlock, F::Interrupted] {
                        cur.push((c, f));
                        rec(ncalls, c + 1, k - 1, cur, out);
                        cur.pop();
                    }
                }
            }
            for k in 1..=kmax {
                rec(ncalls + k, 0, k, &mut vec![], &mut scheds);
            }
            for sc in &scheds {
                runs += 1;
                let got = drive(st, sc, use_next);
                let key = format!("{}:{}:{:?}", hex(st), if use_next { "next" } else { "read" }, sc);
                let (got, base) = match (&got, &base) {
                    (Ok(g), Ok(b)) => (g, b),
                    (Err(p), _) | (_, Err(p)) => {
                        println!("FINDING C05 reader panics under a byte-source fault :: {} :: {}", key, p);
                        findings += 1;
                        continue;
                    }
                };
                let nwb_sched = sc.iter().filter(|(c, f)| *f == F::WouldBlock && {
                    // a WouldBlock scheduled after the source's end is never asked for
                    let _ = c;
                    true
                }).count();
                let seen: Vec<&Ev> = got.iter().filter(|e| matches!(e, Ev::WouldBlock(_))).collect();
                wbs += seen.len() as u64;
                let bad_count = seen.iter().any(|e| **e != Ev::WouldBlock(0));
                let stripped: Vec<Ev> = got.iter().filter(|e| !matches!(e, Ev::WouldBlock(_))).cloned().collect();
                // trailing end signals may repeat a different number of times: compare up to the first end signal
                let cut = |v: &[Ev]| -> Vec<Ev> {
                    let mut o = vec![];
                    for e in v {
                        o.push(e.clone());
                        if matches!(e, Ev::None | Ev::Eof(0)) {
                            break;
                        }
                    }
                    o
                };
                if bad_count {
                    println!("FINDING C11 a would-block is reported with a non-zero discarded-bytes count (default feature set) :: {} :: got {:?}", key, got);
                    findings += 1;
                } else if cut(&stripped) != cut(base) {
                    println!("FINDING C11 would-block / interrupted conditions change the decoded results (default feature set) :: {} :: without faults {:?}, with them {:?}", key, base, got);
                    findings += 1;
                } else if seen.len() > nwb_sched {
                    println!("FINDING C11 a would-block surfaces more than once (default feature set) :: {} :: {} reports for {} conditions", key, seen.len(), nwb_sched);
                    findings += 1;
                }
                if findings > 200 {
                    println!("RUNS {} WB {}", runs, wbs);
                    return;
                }
            }
        }
    }
    println!("RUNS {} WB {}", runs, wbs);
}
